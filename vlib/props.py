"""Per-property reporting data: MANIFEST level, what the obligations decide and what stays undecided.
Pure text; which obligations run is decided by the `props=` field of each obligation header."""

FIXED_TRUSTED = [
    "rustc (Kani's pinned nightly) and MIR semantics",
    "Kani 0.68 MIR->GOTO translation and its models of std/alloc (malloc/realloc/free, memcmp)",
    "CBMC 6.11 symbolic execution (--max-field-sensitivity-array-size raised to keep Vec<Insn> contents precise) + CaDiCaL (SAT)",
]
VERUS_TRUSTED = ["Verus 0.2026.09.13 VC generation + Z3", "vstd specifications of Vec/slice/Option"]

_COMPOSE = ("The obligations are per-function contracts; that they compose into the whole-pattern statement is an "
            "induction over the execution that is argued in DESIGN.md, not machine-checked. ")

PROPS = {
    "C01": ("other", "Component contracts under the ES step specification (crate::matchers::__verif::spec, written from "
            "ECMA-262 22.2.2): UTF-8 decoding fwd/bwd = std for every char pair; every leaf matcher and every "
            "single-instruction program [X, Goal] of the backtracker returns what the ES step prescribes for symbolic "
            "operands on every 2-char haystack; the loop decision table = RepeatMatcher for all integers; undo "
            "discipline per instruction; backtrack records; single-char loops; search driver with the interpreter "
            "replaced by an oracle. " + _COMPOSE + "Not decided: that the parser/optimizer/emitter produce the program "
            "ES prescribes for a pattern (only local contracts of those stages, see C03/C12/C16)."),
    "C02": ("other", "Both engines are checked against the SAME specification: the loop decision table "
            "(es_loop_step) for classicalbacktrack::run_loop and pikevm::run_loop, the same per-instruction step "
            "spec for MatchAttempter::try_at_pos micro-programs and for pikevm::try_match_state, and the undo "
            "discipline (every State write of an instruction is covered by an undo record; replaying the records "
            "restores State) which is what makes a backtracker resumption see the state a PikeVM clone sees. "
            + _COMPOSE),
    "C03": ("other", "Local rewrite contracts of the optimizer/literal passes on bounded IR shapes (each pass is an "
            "identity under its side condition), CodePointSet::inverted = complement (Verus, unbounded), "
            "Char -> ByteSequence = UTF-8 of the char for every char, and the run-time contract the promoted "
            "1-char loops rely on (a loop with min == 0 never fails for any body operand). Not decided: interaction "
            "of passes across the fixpoint and IR shapes outside the bounds; no IR-level semantics is defined."),
    "C04": ("other", "Byte-level lemmas are complete (lead byte = std for every char; monotone; "
            "add_utf8_first_bytes_to_bitmap covers every code point of every interval; bitmap algebra; find_in = "
            "first admitted index); the driver is proved to attempt only admitted offsets, in increasing order, "
            "and to return what the exhaustive ordered scan returns whenever every successful offset is admitted "
            "(oracle-stubbed interpreter, haystack <= 4 bytes with Kani; for haystacks of ANY length with Verus, "
            "cv_drivers, against the assumed contract of find_bytes). The start-predicate analysis is checked on bounded "
            "IR. Assumed (needs IR semantics): a successful attempt starts with a byte of FIRST(pattern)."),
    "C05": ("other", "Local progress only: an iteration past min that did not advance is rejected and iters strictly "
            "increases on enter (run_loop, both engines, all integers); loop data is restored on backtracking so the "
            "counter cannot be re-armed (the root cause of the known hang, fixed); Loop1Char records strictly "
            "approach min; the backtrack stack returns to its backstop. GLOBAL TERMINATION IS NOT PROVED: no "
            "decreases measure for the dispatch loop is within reach of either tool."),
    "C06": ("other", "Every pointer/unchecked access of the decoders is in bounds for every char pair at every "
            "boundary (CBMC pointer checks on the real RefPosition code, and under index-positions/prohibit-unsafe); "
            "all interpreter micro-program obligations run with Kani's memory-safety, overflow and "
            "unreachable_unchecked checks on; successful_match reports start <= end <= len on boundaries. Not "
            "decided: in-range ip/group/loop ids for arbitrary programs (follows from emitter well-formedness, "
            "checked on bounded IR only)."),
    "C07": ("other", "Panic-freedom of parser pieces reachable by Kani (numeric literals saturate, escapes total for "
            "every next code point and mode, bounded class/term parsing) and of the set operations. Stack "
            "exhaustion and hashbrown-based group pre-scan are outside both tools' models."),
    "C09": ("other", "Matches::new/next and both next_match drivers equal the unfold specification written from the "
            "property statement, with the interpreter replaced by an arbitrary deterministic oracle meeting "
            "try_at_pos's contract. UNBOUNDED (Verus, on the function text extracted from /repo): the backtracker's "
            "next_match_with_prefix_search / next_match_anchored / initial_position for ANY input length, prefilter and "
            "regex (first admitted boundary whose attempt succeeds; cursor rule; termination), and Matches::new/next "
            "for ANY producer - with the contracts of InputIndexer's primitives, try_at_pos and successful_match as "
            "stated assumptions. BOUNDED (Kani, real primitives): the same on haystacks of 3 chars incl. a multi-byte "
            "one, every start offset incl. len+1, and the PikeVM driver. Independent of the pattern."),
    "C10": ("other", "fold/uppercase are in range and idempotent for every code point; legacy uppercase(c) is compared "
            "with the ES legacy Canonicalize computed from std's Unicode tables for every char; the i+u word "
            "characters; fold_equals/backref_icase for every canonicalisation function (uninterpreted). "
            "UNCHECKED: the content of the simple-case-folding table vs Unicode 17 (no independent source here)."),
    "C11": ("other", "ONLY the tables with an in-sandbox oracle are covered: White_Space and gc=Cc against std's Unicode 17 "
            "data for every char, ASCII / Any / ASCII_Hex_Digit against their definitions, and 6 tables checked "
            "sorted/disjoint/non-abutting. That is 5 of ~300 tables: Script, Script_Extensions, General_Category "
            "values other than Cc, almost all binary properties, properties of strings, alias wiring and rejection "
            "of unknown names are NOT checked (no independent Unicode 17 source exists in the sandbox)."),
    "C12": ("other", "CodePointSet algebra against a set-of-code-points view: inverted/intersect/add_set/add_one (modulo add), "
            "mergeable/merge_intervals/contains_all_codepoints unbounded (Verus, on the "
            "mechanically extracted real functions), add/add_one/remove/contains on vectors of concrete length with "
            "symbolic contents (Kani), bracket matching = membership XOR invert. Class-set parsing beyond bounded "
            "inputs is not decided."),
    "C13": ("other", "ASCII char properties = UTF-8 ones on every ASCII byte; AsciiInput refines Utf8Input op by op on "
            "ASCII buffers; the ASCII-input interpreter agrees with the UTF-8 one per instruction kind; u32->u8 "
            "narrowing never aborts a loop (min==0 never fails). Equality of whole searches then follows by "
            "parametricity of the shared generic interpreter (argued, not checked)."),
    "C14": ("other", "Decoder level only (feature utf16): Utf16Input pairs exactly (high, low) surrogates forward and "
            "backward for every (u16,u16) and every position, agrees with std's encode_utf16 on every char, Ucs2Input "
            "never pairs, no panic and no out-of-range position on arbitrary units. Whole-search agreement with the "
            "UTF-8 entry points (offset translation, emit_code_point_sequence under utf16) is NOT decided."),
    "C15": ("other", "Each cfg!(prohibit-unsafe)/index-positions twin satisfies the same contract as the default build "
            "(decoders, iat/mat, ByteBitmap::find_in, try_backtrack). hashbrown vs std HashMap assumed."),
    "C16": ("other", "Accessor identities for every Match with <= 3 groups over a small name alphabet; successful_match "
            "builds one slot per group from the group data; capture instructions write exactly their group."),
    "C17": ("other", "BOUNDED only. Template expansion: the real expand_replacement equals spec_expand (the template "
            "specification written from the property text) on an enumerated set of concrete templates - quick: 50 curated "
            "ones (`$$`, stray/trailing `$`, numbered references with leading zeros and long digit runs incl. values above "
            "65535, `${name}` known/unknown/empty/unterminated, multi-byte text); thorough: additionally every template "
            "of length <= 3 over {$,1,{,},n} - with symbolic group participation. Splice: replace_with and replace "
            "(first match) equal the splice specification for every possible first match on a 3-byte haystack with a "
            "2-byte character (matcher = arbitrary deterministic oracle); replace_all_with and replace_all equal the "
            "splice specification for EVERY match sequence of up to 3 matches (symbolic ranges, empty and adjacent "
            "matches) on a 4-byte haystack with a 2-byte character - closure = marker / the match's own text (identity) "
            "/ literal template, thorough: template [$0] - with the search driver replaced by its contract (Verus unit "
            "cv_drivers) and Matches::next, the dispatch, the splice loop and expand_replacement real. NOT covered: "
            "symbolic templates (do not close), longer haystacks, more than 3 matches."),
    "C18": ("other", "escape(s) == esc_spec(s) for EVERY string s (Verus, unbounded, on the function text extracted from "
            "src/api.rs): each of the 14 syntax characters gets one backslash, every other character is copied in order; "
            "and the parser's CharacterEscape maps `\\c` back to the literal c for each of those characters in every mode, "
            "for every code point without panicking (Kani). NOT decided: that every non-syntax character parses as "
            "itself in every mode (consume_term does not close) and the end-to-end statement 'the compiled pattern finds "
            "exactly the occurrences of s', which needs C01-level composition."),
    "C19": ("proof", "Type-level frame condition: Regex, Match, Error are Send + Sync + DeepFrozen (no UnsafeCell "
            "reachable, dependencies included) - a &Regex cannot be written through, so no interleaving or earlier "
            "query can change a result; plus unsafe-site and global-state inventory."),
    "C20": ("other", "Per-step contracts of the Searcher and ReverseSearcher. UNBOUNDED (Verus, on the function text extracted "
            "from src/api.rs, for haystacks of any length and any regex): RegexSearcher::next - a step starts at the cursor, "
            "ends on a char boundary, the cursor moves to its end; Reject up to the regex's next match, Match exactly for it, "
            "Done only at the end and sticky - with find_from(..).next() as an uninterpreted first-match function (C09's "
            "contract, assumed); RegexSearcher::next_back likewise, with find_last_match_before as an assumed contract that "
            "is discharged separately: unbounded by the Verus unit cv_last_match (any number of matches, iterator contract assumed) "
            "and with the real driver by Kani (bounded: every match sequence of <= 3 matches on a 4-byte haystack). "
            "BOUNDED (Kani, feature pattern, real matcher driver with an oracle interpreter, 4-byte haystack with a 2-byte "
            "char): the forward step. KNOWN FINDINGS: F7 (forward) and F7b (reverse): after a zero-width match the steps are "
            "not adjacent, and next_back then skips matches. NOT covered: agreement of the reverse stream with the forward match sequence, interleavings of next/next_back, "
            "Pattern-level consumers (find, split)."),
}

ASSUMPTIONS = {
    "C01": ["composition of per-instruction contracts into whole-program semantics (paper induction)",
            "decoder locality: a decoder call reads at most 4 bytes on either side of pos, so two adjacent chars "
            "exhibit every behaviour",
            "ByteSet/ByteSeq operands are whole ASCII chars / whole UTF-8 sequences (established by literal.rs, "
            "checked on bounded IR under C03)"],
    "C02": ["composition over whole programs (paper induction, DESIGN.md 5.C02)",
            "E3 arm-level obligations use spec_backtrack as the contract of try_backtrack; the real try_backtrack is "
            "checked against it by e4_bt_records_* (assume-guarantee)"],
    "C04": ["a successful attempt at p starts with a byte of FIRST(pattern) (IR semantics, not defined here)",
            "memchr/memmem meet their documented contracts (SIMD, outside Kani)"],
    "C05": ["termination itself is not proved"],
    "C09": ["try_at_pos contract assumed by the oracle: start <= end <= len, end on a boundary, deterministic, State "
            "clean on None (E2/E3/E9 establish these per instruction)"],
    "C17": ["Match values are built directly (accessors are contracted under C16 by j1_*)",
            "the matcher is an oracle meeting try_at_pos's contract; successful_match is replaced by its contract stub",
            "j3_replace_all_*: next_match_with_prefix_search is replaced by scripted_search, its contract as verified "
            "(unbounded) by the Verus unit cv_drivers"],
    "C10": ["content of FOLDS vs Unicode 17 CaseFolding.txt is unchecked"],
}


def level_of(pid):
    return PROPS.get(pid, ("other", ""))[0]


def explanation_of(pid):
    return PROPS.get(pid, ("other", ""))[1]
