"""Per-property reporting data: MANIFEST level, what the obligations decide and what stays undecided.
Pure text; which obligations run is decided by the `props=` field of each obligation header."""

FIXED_TRUSTED = [
    "rustc (Kani's pinned nightly) and MIR semantics",
    "Kani 0.68 MIR->GOTO translation and its models of std/alloc",
    "CBMC 6.11 symbolic execution + CaDiCaL (SAT)",
]
VERUS_TRUSTED = ["Verus 0.2026.09.13 VC generation + Z3", "vstd specifications of Vec/slice/Option"]

PROPS = {
    # id: (level, explanation of coverage / what remains undecided)
}


def level_of(pid):
    return PROPS.get(pid, ("other", ""))[0]


def explanation_of(pid):
    return PROPS.get(pid, ("other", ""))[1]
