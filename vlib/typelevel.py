"""Type-level unit (C19): frame condition 'a &Regex cannot be written through' decided by rustc's trait solver
(custom auto trait DeepFrozen with a negative impl for UnsafeCell, plus Send + Sync), completed by mechanical scans
of the source for global mutable state, unsafe sites and the `&self` signatures of the search entry points."""
import os
import re
import time

from . import weave
from .common import REPO, offline_env, run


class TObligation:
    backend = "rustc"
    kind = "complete"
    bound = ""
    fs = 0
    weight = 1
    timeout = 900
    min_checks = 1
    contract_file = os.path.abspath(__file__)

    def __init__(self, name, fn, desc, domain, tier="quick"):
        self.name = name
        self.fn = fn
        self.desc = desc
        self.domain = domain
        self.props = {"C19": tier}
        self.src_file = "api.rs"

    def wanted(self, prop, tier):
        t = self.props.get(prop)
        return t is not None and (t == "quick" or tier == "thorough")

    def feature_sets(self, tier):
        return ["default"]


PROBE = r'''#![feature(auto_traits, negative_impls)]
use core::cell::UnsafeCell;
pub auto trait DeepFrozen {}
impl<T: ?Sized> !DeepFrozen for UnsafeCell<T> {}
fn send_sync<T: Send + Sync>() {}
fn deep<T: DeepFrozen>() {}
fn main() {
    send_sync::<regress::Regex>();
    send_sync::<regress::Match>();
    send_sync::<regress::Error>();
    deep::<regress::Regex>();
    deep::<regress::Match>();
    deep::<regress::Error>();
    // every search entry point takes the regex by shared reference (this is a type check, nothing is executed)
    let _find: for<'r, 't> fn(&'r regress::Regex, &'t str) -> Option<regress::Match> = regress::Regex::find;
    let _find_ascii: for<'r, 't> fn(&'r regress::Regex, &'t str) -> Option<regress::Match> = regress::Regex::find_ascii;
    let _find_iter: for<'r, 't> fn(&'r regress::Regex, &'t str) -> regress::Matches<'r, 't> = regress::Regex::find_iter;
    let _find_from: for<'r, 't> fn(&'r regress::Regex, &'t str, usize) -> regress::Matches<'r, 't> = regress::Regex::find_from;
    let _replace: for<'r, 't, 'u> fn(&'r regress::Regex, &'t str, &'u str) -> String = regress::Regex::replace;
    let _replace_all: for<'r, 't, 'u> fn(&'r regress::Regex, &'t str, &'u str) -> String = regress::Regex::replace_all;
    #[cfg(canary1)]
    deep::<Vec<std::sync::Mutex<u8>>>();
    #[cfg(canary2)]
    deep::<Box<std::sync::atomic::AtomicUsize>>();
    #[cfg(canary3)]
    deep::<(regress::Regex, core::cell::Cell<u8>)>();
}
'''

OBS = [
    TObligation("k_deepfrozen_send_sync", "api::Regex,api::Match,api::Error,insn::CompiledRegex",
                "Regex, Match and Error are Send + Sync and DeepFrozen: no UnsafeCell (Cell, RefCell, Mutex, RwLock, Once*, "
                "atomics) is reachable through any field, Vec, Box or dependency type, so no code holding a &Regex can "
                "write to it; find/find_ascii/find_iter/find_from/replace/replace_all take &self (type-checked).",
                "all field paths of the three types, dependencies included (rustc trait solver)"),
    TObligation("k_deepfrozen_canaries", "checker crate",
                "Vacuity guard: the same bound is rejected for Vec<Mutex<u8>>, Box<AtomicUsize> and (Regex, Cell<u8>) "
                "(each must fail to compile with E0277 on DeepFrozen).", "3 canary types"),
    TObligation("k_no_global_mutable_state", "src/*.rs",
                "No `static mut`, thread_local!, lazy/once cells or atomics are declared anywhere in the crate: a search "
                "cannot depend on earlier searches through global state.", "every line of src/*.rs"),
    TObligation("k_unsafe_inventory", "src/*.rs",
                "Every `unsafe` site is in the reviewed inventory (read-only accesses to the haystack / tables or to state "
                "owned by the executor via &mut self); a new unsafe site makes this obligation undecided until reviewed.",
                "every `unsafe` token of src/*.rs"),
]

# reviewed inventory: file -> number of `unsafe` tokens outside comments (pinned tree + fix commits)
UNSAFE_INVENTORY = None  # filled lazily from /verif/contracts/unsafe_inventory.json


def all_obligations():
    return list(OBS)


def _strip_comments(text):
    text = re.sub(r"//[^\n]*", "", text)
    text = re.sub(r"/\*.*?\*/", "", text, flags=re.S)
    return text


def _count_unsafe(src_dir):
    counts = {}
    for fn in sorted(os.listdir(src_dir)):
        if fn.endswith(".rs"):
            with open(os.path.join(src_dir, fn)) as f:
                t = _strip_comments(f.read())
            n = len(re.findall(r"\bunsafe\b", t))
            if n:
                counts[fn] = n
    return counts


def run_group(pid, obs, args, records, log, mk_record):
    from .common import load_json, CONTRACTS
    t0 = time.time()
    scratch = weave.make_scratch("C19")
    try:
        crate = os.path.join(scratch, "zz_typelevel")
        os.makedirs(os.path.join(crate, "src"))
        with open(os.path.join(crate, "Cargo.toml"), "w") as f:
            f.write('[package]\nname = "zz_typelevel"\nversion = "0.0.0"\nedition = "2021"\n\n[workspace]\n\n'
                    '[dependencies]\nregress = { path = ".." }\n')
        with open(os.path.join(crate, "src", "main.rs"), "w") as f:
            f.write(PROBE)
        os.makedirs(os.path.join(crate, ".cargo"), exist_ok=True)
        with open(os.path.join(crate, ".cargo", "config.toml"), "w") as f:
            f.write("[net]\noffline = true\n")
        lock = os.path.join(scratch, "Cargo.lock")
        if os.path.exists(lock):
            import shutil
            shutil.copy(lock, os.path.join(crate, "Cargo.lock"))
        base = ["cargo", "+nightly", "check", "--offline"]
        wanted = {o.name: o for o in obs}

        def rec(o, status, reason, cmd, secs, checks=1):
            r = {"status": status, "reason": reason, "n_checks": checks, "failed": [], "covers_total": 0,
                 "covers_satisfied": 0, "solver_s": round(secs, 2), "wall_s": round(secs, 1), "cmd": cmd}
            if status == "violated":
                r["failed"] = [{"id": o.name, "description": reason, "location": o.fn}]
            m = mk_record(o, "default", r)
            if status == "violated":
                m["_res"] = r
                m["_out"] = reason
            records.append(m)
            log("  %-44s %-10s %5.0fs %s" % (o.name, status, secs, ("- " + reason[:200]) if reason else ""))

        if "k_deepfrozen_send_sync" in wanted:
            o = wanted["k_deepfrozen_send_sync"]
            rc, out, secs, to = run(base, cwd=crate, env=offline_env(), timeout=900)
            if rc == 0:
                rec(o, "discharged", "", " ".join(base) + " (zz_typelevel probe crate)", secs, checks=12)
            elif re.search(r"E0277|E0308|E0599|E0061|mismatched types", out) and "zz_typelevel" in out and \
                    re.search(r"--> src/main\.rs", out):
                first = [l for l in out.split("\n") if l.startswith("error")][:3]
                rec(o, "violated", "trait solver rejects the frame condition: " + " | ".join(first), " ".join(base), secs)
            else:
                rec(o, "undecided", "probe crate does not build: " + " | ".join(
                    [l for l in out.split("\n") if l.startswith("error")][:3]), " ".join(base), secs)
        if "k_deepfrozen_canaries" in wanted:
            o = wanted["k_deepfrozen_canaries"]
            bad = []
            tot = 0.0
            for c in ("canary1", "canary2", "canary3"):
                env = offline_env({"RUSTFLAGS": "--cfg %s" % c})
                rc, out, secs, to = run(base, cwd=crate, env=env, timeout=900)
                tot += secs
                if not (rc != 0 and "E0277" in out and "DeepFrozen" in out):
                    bad.append(c)
            if bad:
                rec(o, "undecided", "vacuity guard: canary accepted by the trait solver: %s" % ",".join(bad),
                    "RUSTFLAGS=--cfg canaryN " + " ".join(base), tot)
            else:
                rec(o, "discharged", "", "RUSTFLAGS=--cfg canaryN " + " ".join(base), tot, checks=3)
        src_dir = os.path.join(scratch, "src")
        if "k_no_global_mutable_state" in wanted:
            o = wanted["k_no_global_mutable_state"]
            ts = time.time()
            hits = []
            n_lines = 0
            for fn in sorted(os.listdir(src_dir)):
                if not fn.endswith(".rs"):
                    continue
                with open(os.path.join(src_dir, fn)) as f:
                    t = _strip_comments(f.read())
                for i, line in enumerate(t.split("\n"), 1):
                    n_lines += 1
                    if re.search(r"\bstatic\s+mut\b|thread_local!|lazy_static!|\bOnceLock\b|\bOnceCell\b|\bLazyLock\b|"
                                 r"\bLazyCell\b|\bAtomic(Usize|U8|U16|U32|U64|Bool|I32|I64|Isize|Ptr)\b|"
                                 r"\b(RefCell|Mutex|RwLock|UnsafeCell)\b|\bCell<", line):
                        hits.append("%s:%d: %s" % (fn, i, line.strip()[:80]))
            if hits:
                rec(o, "violated", "global or interior mutable state declared: " + "; ".join(hits[:4]),
                    "scan of src/*.rs", time.time() - ts)
            else:
                rec(o, "discharged", "", "scan of src/*.rs (%d lines)" % n_lines, time.time() - ts, checks=n_lines)
        if "k_unsafe_inventory" in wanted:
            o = wanted["k_unsafe_inventory"]
            ts = time.time()
            inv = load_json(os.path.join(CONTRACTS, "unsafe_inventory.json"), {}) or {}
            cur = _count_unsafe(src_dir)
            diff = ["%s: %d (reviewed %d)" % (k, cur.get(k, 0), inv.get(k, 0)) for k in sorted(set(cur) | set(inv))
                    if cur.get(k, 0) > inv.get(k, 0)]
            if diff:
                rec(o, "undecided", "unsafe sites not in the reviewed inventory: " + "; ".join(diff),
                    "scan of src/*.rs", time.time() - ts)
            else:
                rec(o, "discharged", "", "scan of src/*.rs", time.time() - ts, checks=sum(cur.values()))
    finally:
        weave.drop_scratch(scratch)
