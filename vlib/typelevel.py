"""Type-level unit (C19): filled in below."""


def all_obligations():
    return []


def run_group(pid, obs, args, records, log, mk_record):
    pass
