"""Run Kani harnesses of the scratch crate and parse CBMC's per-check results."""
import os
import re
import threading
import time
from concurrent.futures import ThreadPoolExecutor

from .common import offline_env, run

KANI_Z = ["-Z", "stubbing", "-Z", "function-contracts", "-Z", "unstable-options"]

_CHECK_RE = re.compile(
    r"^Check (\d+): ([^\n]+)\n\s+- Status: (\w+)\n\s+- Description: \"(.*?)\"\n(?:\s+- Location: ([^\n]*)\n)?",
    re.M | re.S)


def features_args(fs):
    """'default' | 'utf16' | 'index-positions,prohibit-unsafe' -> cargo args"""
    if fs in ("", "default"):
        return []
    return ["--features", fs]


def compile_scratch(scratch, fs, timeout=1800):
    cmd = ["cargo", "kani", "-p", "regress"] + KANI_Z + features_args(fs) + ["--no-codegen"]
    rc, out, secs, to = run(cmd, cwd=scratch, env=offline_env(), timeout=timeout)
    return rc == 0 and not to, out, secs, " ".join(cmd)


def parse_checks(out):
    checks = []
    for m in _CHECK_RE.finditer(out):
        checks.append({"n": int(m.group(1)), "id": m.group(2), "status": m.group(3),
                       "description": m.group(4), "location": (m.group(5) or "").strip()})
    return checks


def _is_unwind(c):
    return "unwinding assertion" in c["description"] or ".unwind." in c["id"] or "recursion unwinding" in c["description"]


def _is_unsupported(c):
    d = c["description"]
    return ("unsupported_construct" in c["id"] or "is not currently supported by Kani" in d
            or "unsupported construct" in d.lower())


_FREE_MODEL = ("rust_dealloc must be called on an object whose allocated size matches its layout",
               "free argument must be NULL or valid pointer", "free argument must be dynamic object",
               "free argument has offset zero", "double free", "free called for new[] object",
               "free argument is dynamic object")


def _is_free_model(c):
    """Failures inside Kani's C model of __rust_dealloc/free (kani_lib.c). regress never frees memory by hand, so
    these arise only from harness-built values (zero-length boxed slices, realloc'd Vec buffers) being dropped at the
    end of a proof: a model artefact, reported as undecided, never as a violation."""
    return c["description"] in _FREE_MODEL or "kani_lib.c" in c.get("location", "")


def _is_cover(c):
    return ".cover." in c["id"] or c["status"] in ("SATISFIED", "UNSATISFIABLE")


def classify(out, rc, timed_out, ignore_free_model=False):
    """-> dict(status=discharged|violated|undecided, reason, checks, failed[], covers...)"""
    checks = parse_checks(out)
    res = {"n_checks": len([c for c in checks if not _is_cover(c)]), "failed": [], "covers_total": 0,
           "covers_satisfied": 0, "reason": "", "solver_s": None}
    m = re.search(r"Verification Time: ([0-9.]+)s", out)
    if m:
        res["solver_s"] = float(m.group(1))
    if timed_out:
        res["status"] = "undecided"
        res["reason"] = "timeout"
        return res
    covers = [c for c in checks if _is_cover(c)]
    res["covers_total"] = len(covers)
    res["covers_satisfied"] = len([c for c in covers if c["status"] == "SATISFIED"])
    failed = [c for c in checks if c["status"] == "FAILURE" and not _is_cover(c)]
    unwind = [c for c in failed if _is_unwind(c)]
    unsupported = [c for c in failed if _is_unsupported(c)]
    freem = [c for c in failed if _is_free_model(c)]
    real = [c for c in failed if not _is_unwind(c) and not _is_unsupported(c) and not _is_free_model(c)]
    errored = [c for c in checks if c["status"] == "ERROR"]
    if errored and not real:
        res["status"] = "undecided"
        res["reason"] = "solver error on %d checks (memory cap or solver failure)" % len(errored)
        return res
    if "VERIFICATION:- SUCCESSFUL" in out and not failed:
        if res["covers_total"] and res["covers_satisfied"] < res["covers_total"]:
            res["status"] = "undecided"
            bad = [c["description"] for c in covers if c["status"] != "SATISFIED"]
            res["reason"] = "vacuity guard: cover not satisfied: %s" % "; ".join(bad[:3])
            return res
        if res["n_checks"] == 0:
            res["status"] = "undecided"
            res["reason"] = "vacuity guard: zero checks generated"
            return res
        res["status"] = "discharged"
        return res
    if "VERIFICATION:- FAILED" in out:
        if unwind:
            res["status"] = "undecided"
            res["reason"] = "unwinding assertion failed (bound too small for this code): %s" % unwind[0]["location"]
            res["failed"] = unwind[:5]
            return res
        if real:
            res["status"] = "violated"
            res["failed"] = real
            res["reason"] = "; ".join(sorted(set(c["description"] for c in real))[:6])
            return res
        if unsupported:
            res["status"] = "undecided"
            res["reason"] = "unsupported construct reachable: %s" % unsupported[0]["description"]
            return res
        if freem and ignore_free_model:
            res["status"] = "discharged"
            res["note"] = "free()-model checks of kani_lib.c disregarded (%d)" % len(freem)
            return res
        if freem:
            res["status"] = "undecided"
            res["reason"] = "only Kani's free()/dealloc model failed (harness artefact): %s" % freem[0]["description"]
            return res
        res["status"] = "undecided"
        res["reason"] = "verification failed without a failed property check (see log)"
        return res
    # no verdict line: compile error, OOM, crash
    res["status"] = "undecided"
    tail = out.strip().split("\n")[-8:]
    if "error" in out and "could not compile" in out:
        res["reason"] = "compile error in scratch crate"
    elif re.search(r"out of memory|std::bad_alloc|memory exhausted|Killed|SIGKILL|signal: 9|signal: 6", out):
        res["reason"] = "CBMC out of memory / killed under the per-process memory cap"
    else:
        res["reason"] = "no verdict (rc=%s): %s" % (rc, " | ".join(t.strip() for t in tail)[-300:])
    return res


def harness_cmd(ob, fs, playback=False):
    cmd = ["cargo", "kani", "-p", "regress"] + KANI_Z + features_args(fs)
    cmd += ["--harness", ob.harness_path(), "--exact", "--output-format", "regular"]
    if ob.solver:
        cmd += ["--solver", ob.solver]
    if playback:
        cmd += ["-Z", "concrete-playback", "--concrete-playback=print"]
    if ob.extra:
        cmd += ob.extra.split()
    cmd += ["--cbmc-args", "--max-field-sensitivity-array-size", str(ob.fs)]
    if ob.unwindset:
        cmd += ["--unwindset", ob.unwindset]
    return cmd


class Pool:
    """Weighted pool: the sum of weights of running harnesses never exceeds `capacity`.
    A unit of weight stands for ~3.5 GB of CBMC address space."""

    def __init__(self, capacity):
        self.capacity = capacity
        self.used = 0
        self.cv = threading.Condition()

    def acquire(self, w):
        w = min(w, self.capacity)
        with self.cv:
            while self.used + w > self.capacity:
                self.cv.wait()
            self.used += w
        return w

    def release(self, w):
        with self.cv:
            self.used -= w
            self.cv.notify_all()


def run_harness(scratch, ob, fs, pool, log_dir):
    w = pool.acquire(ob.weight)
    try:
        cmd = harness_cmd(ob, fs)
        mem = max(6.0, 3.5 * ob.weight + 2.5)
        rc, out, secs, to = run(cmd, cwd=scratch, env=offline_env(), timeout=ob.timeout, mem_gb=mem)
    finally:
        pool.release(w)
    res = classify(out, rc, to, getattr(ob, "ignore_free_model", False))
    res["wall_s"] = round(secs, 1)
    res["cmd"] = " ".join(cmd)
    if log_dir:
        os.makedirs(log_dir, exist_ok=True)
        with open(os.path.join(log_dir, "%s@%s.log" % (ob.name, fs.replace(",", "+"))), "w") as f:
            f.write(out)
    res["_out"] = out
    return res


def run_all(scratch, obs, fs, capacity, log_dir, progress=None):
    pool = Pool(capacity)
    results = {}
    # heavy first so they overlap with the light ones
    order = sorted(obs, key=lambda o: (-o.weight, -o.timeout, o.name))
    with ThreadPoolExecutor(max_workers=capacity) as ex:
        futs = {ex.submit(run_harness, scratch, ob, fs, pool, log_dir): ob for ob in order}
        for fut, ob in futs.items():
            pass
        for fut in futs:
            ob = futs[fut]
            try:
                results[ob.name] = fut.result()
            except Exception as e:  # framework error -> undecided, never an alarm
                results[ob.name] = {"status": "undecided", "reason": "framework error: %r" % e, "n_checks": 0,
                                    "failed": [], "covers_total": 0, "covers_satisfied": 0, "wall_s": 0, "cmd": "",
                                    "_out": ""}
            if progress:
                progress(ob, results[ob.name])
    return results


_THREAD_START = re.compile(r"^Thread (\d+): Checking harness (\S+?)\.\.\.\s*$", re.M)
_FAILED_CHECK = re.compile(r"^Failed Checks: (.*)\n File: \"([^\"]*)\", line (\d+), in (.*)$", re.M)


def classify_terse(block, ignore_free_model=False):
    """Classify one per-thread result block of `--output-format terse`."""
    res = {"n_checks": 0, "failed": [], "covers_total": 0, "covers_satisfied": 0, "reason": "", "solver_s": None}
    m = re.search(r"\*\* (\d+) of (\d+) failed", block)
    if m:
        res["n_checks"] = int(m.group(2))
    m = re.search(r"\*\* (\d+) of (\d+) cover properties satisfied", block)
    if m:
        res["covers_satisfied"], res["covers_total"] = int(m.group(1)), int(m.group(2))
    m = re.search(r"Verification Time: ([0-9.]+)s", block)
    if m:
        res["solver_s"] = float(m.group(1))
    failed = [{"id": "", "description": f[0].strip(), "location": "%s:%s in %s" % (f[1], f[2], f[3].strip()),
               "status": "FAILURE"} for f in _FAILED_CHECK.findall(block)]
    # Failed Checks lines without a File line
    for l in re.findall(r"^Failed Checks: (.*)$", block, re.M):
        if not any(c["description"] == l.strip() for c in failed):
            failed.append({"id": "", "description": l.strip(), "location": "", "status": "FAILURE"})
    unwind = [c for c in failed if _is_unwind(c)]
    unsupported = [c for c in failed if _is_unsupported(c)]
    freem = [c for c in failed if _is_free_model(c)]
    real = [c for c in failed if not _is_unwind(c) and not _is_unsupported(c) and not _is_free_model(c)]
    if "CBMC timed out" in block:
        res["status"], res["reason"] = "undecided", "timeout"
    elif "VERIFICATION:- SUCCESSFUL" in block and not failed:
        if res["covers_total"] and res["covers_satisfied"] < res["covers_total"]:
            res["status"] = "undecided"
            res["reason"] = "vacuity guard: %d of %d cover properties satisfied" % (
                res["covers_satisfied"], res["covers_total"])
        elif res["n_checks"] == 0:
            res["status"], res["reason"] = "undecided", "vacuity guard: zero checks generated"
        else:
            res["status"] = "discharged"
    elif "VERIFICATION:- FAILED" in block:
        if unwind:
            res["status"] = "undecided"
            res["reason"] = "unwinding assertion failed (bound too small for this code): %s" % unwind[0]["location"]
            res["failed"] = unwind[:5]
        elif real:
            res["status"] = "violated"
            res["failed"] = real
            res["reason"] = "; ".join(sorted(set(c["description"] for c in real))[:6])
        elif unsupported:
            res["status"] = "undecided"
            res["reason"] = "unsupported construct reachable: %s" % unsupported[0]["description"]
        elif freem and ignore_free_model:
            # opt-in per obligation: regress never frees memory by hand, safe Rust rules out double free; the failing
            # checks are inside Kani's C model of free() for values the code under test drops (zero-length boxed slices)
            if res["covers_total"] and res["covers_satisfied"] < res["covers_total"]:
                res["status"] = "undecided"
                res["reason"] = "vacuity guard: %d of %d cover properties satisfied" % (
                    res["covers_satisfied"], res["covers_total"])
            else:
                res["status"] = "discharged"
                res["reason"] = ""
                res["note"] = "free()-model checks of kani_lib.c disregarded (%d)" % len(freem)
        elif freem:
            res["status"] = "undecided"
            res["reason"] = "only Kani's free()/dealloc model failed (harness artefact): %s" % freem[0]["description"]
        else:
            res["status"] = "undecided"
            res["reason"] = "CBMC failed without a failed property check (memory cap, solver error): %s" % \
                            " ".join(block.split())[:200]
    else:
        res["status"] = "undecided"
        res["reason"] = "no verdict for this harness (driver crashed or was killed)"
    return res


def run_batch(scratch, obs, fs, jobs, log_dir, mem_gb=7.0):
    """One `cargo kani` invocation for many light harnesses: one compile, `jobs` CBMC processes in parallel.
    Returns {name: result}."""
    if not obs:
        return {}
    tmo = max(o.timeout for o in obs)
    cmd = ["cargo", "kani", "-p", "regress"] + KANI_Z + features_args(fs)
    for o in obs:
        cmd += ["--harness", o.harness_path()]
    cmd += ["--exact", "-j", str(max(1, min(jobs, len(obs)))), "--output-format", "terse",
            "--harness-timeout", "%ds" % tmo, "--cbmc-args", "--max-field-sensitivity-array-size", str(obs[0].fs)]
    t0 = time.time()
    rc, out, secs, to = run(cmd, cwd=scratch, env=offline_env(), timeout=tmo * (2 + len(obs) // max(1, jobs)) + 600,
                            mem_gb=mem_gb)
    if log_dir:
        os.makedirs(log_dir, exist_ok=True)
        with open(os.path.join(log_dir, "batch-w%d-fs%d@%s.log" % (obs[0].weight, obs[0].fs, fs.replace(",", "+"))), "w") as f:
            f.write(out)
    # split into per-harness blocks; with -j 1 kani prints no "Thread N:" prefixes
    blocks = {}
    if re.search(r"^Thread \d+: Checking harness", out, re.M):
        events = []  # (pos, thread, harness or None)
        for m in _THREAD_START.finditer(out):
            events.append((m.start(), int(m.group(1)), m.group(2)))
        for m in re.finditer(r"^Thread (\d+): *$", out, re.M):
            events.append((m.start(), int(m.group(1)), None))
        events.sort()
        current = {}
        for i, (pos, th, h) in enumerate(events):
            end = events[i + 1][0] if i + 1 < len(events) else len(out)
            m2 = re.search(r"^Manual Harness Summary", out[pos:end], re.M)
            if m2:
                end = pos + m2.start()
            if h is not None:
                current[th] = h
            else:
                hn = current.get(th)
                if hn:
                    blocks[hn] = out[pos:end]
    else:
        starts = [(m.start(), m.group(1)) for m in re.finditer(r"^Checking harness (\S+?)\.\.\.\s*$", out, re.M)]
        for i, (pos, hn) in enumerate(starts):
            end = starts[i + 1][0] if i + 1 < len(starts) else len(out)
            m2 = re.search(r"^Manual Harness Summary", out[pos:end], re.M)
            if m2:
                end = pos + m2.start()
            blocks[hn] = out[pos:end]
    results = {}
    short_cmd = " ".join(cmd[:8] + ["--harness", "<each>", "--exact", "-j", str(jobs), "--output-format", "terse"])
    for o in obs:
        b = blocks.get(o.harness_path())
        if b is None:
            if "could not compile" in out:
                r = {"status": "undecided", "reason": "compile error in scratch crate", "n_checks": 0, "failed": [],
                     "covers_total": 0, "covers_satisfied": 0, "solver_s": None}
            else:
                r = {"status": "undecided", "reason": "harness produced no result block (batch killed or timed out)",
                     "n_checks": 0, "failed": [], "covers_total": 0, "covers_satisfied": 0, "solver_s": None}
            b = ""
        else:
            r = classify_terse(b, getattr(o, "ignore_free_model", False))
        r["wall_s"] = round(r.get("solver_s") or 0.0, 1)
        r["cmd"] = " ".join(harness_cmd(o, fs))
        r["_out"] = b
        r["batch_wall_s"] = round(secs, 1)
        results[o.name] = r
    return results


_TEST_RE = re.compile(r"(#\[test\]\s*\n\s*fn (kani_concrete_playback_\w+)\(\) \{.*?\n\})", re.S)


def concrete_playback(scratch, ob, fs):
    """Re-run a violated harness asking Kani for a concrete counterexample as a unit test.
    Returns (test_src or None, test_name or None, raw_output)."""
    cmd = harness_cmd(ob, fs, playback=True)
    rc, out, secs, to = run(cmd, cwd=scratch, env=offline_env(), timeout=ob.timeout, mem_gb=3.5 * ob.weight + 2.5)
    m = _TEST_RE.search(out)
    if not m:
        return None, None, out
    return m.group(1), m.group(2), out


def replay_test_natively(scratch, ob, fs, test_src, test_name):
    """Insert the generated unit test next to the harness (inside the injected module) and run it with
    `cargo kani playback`: the counterexample is executed natively against the real code.
    Returns (reproduced: bool|None, output)."""
    src = os.path.join(scratch, "src", ob.src_file)
    with open(src) as f:
        text = f.read()
    marker = "mod __verif {\n    use super::*;"
    idx = text.rfind(marker)
    if idx < 0:
        return None, "injected module marker not found"
    ins = idx + len(marker)
    text2 = text[:ins] + "\n" + test_src + "\n" + text[ins:]
    with open(src, "w") as f:
        f.write(text2)
    try:
        cmd = ["cargo", "kani", "playback", "-p", "regress", "-Z", "concrete-playback"] + features_args(fs) + \
              ["--", test_name]
        rc, out, secs, to = run(cmd, cwd=scratch, env=offline_env(), timeout=900)
    finally:
        with open(src, "w") as f:
            f.write(text)
    if to:
        return None, out + "\n[timeout]"
    if re.search(r"test result: FAILED|panicked at", out):
        return True, out
    if re.search(r"test result: ok\. 1 passed", out):
        return False, out
    return None, out
