"""Verus route: mechanical extraction of real functions + ghost overlay (filled in below)."""


def all_obligations():
    return []


def run_group(pid, obs, args, records, log, mk_record):
    pass
