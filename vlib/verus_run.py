"""Verus route: the verbatim text of the anchored function is extracted from /repo's current working tree on every run,
a ghost overlay (contracts/verus/<unit>.overlay.json) is spliced in at anchors given by exact statement text, and the
result is verified by `verus` (single file; vstd cannot be resolved by cargo-verus offline).

Extraction rules (closed set; each application is logged in the evidence):
  X1 copy the function text byte for byte from its signature line to the matching closing brace (sha256 recorded)
  X2 drop the attributes listed in the overlay (#[must_use], #[inline]) and doc comments directly above the item
  X4 `for x in <expr> {` -> `for x in it: <expr> invariant .. {`            (names the ghost iterator, adds an invariant)
  X5 insert requires/ensures after the signature and `proof { .. }` / `let ghost` lines before/after a statement that is
     identified by its exact (whitespace-trimmed) text and occurrence number
  X5s a unit-typed tail expression after which ghost code is inserted gets a terminating `;`
  X6 type declarations used by the function are re-stated in the prelude with `pub` fields; the run checks textually that
     the source still declares the same fields
Anything else (an anchor that is not found exactly as often as expected, a changed type declaration) is *undecided*.
A Verus error on an unchanged anchor set is a *violated* obligation; Verus gives no counterexample, so the VIOLATION line
ends with no-failing-input-found and the replay file carries Verus's output."""
import hashlib
import json
import os
import re
import shutil
import tempfile
import time

from .common import CONTRACTS, REPO, run, scratch_parent

VERUS_DIR = os.path.join(CONTRACTS, "verus")


class VObligation:
    backend = "verus"
    kind = "unbounded"
    bound = ""
    weight = 1
    timeout = 600
    min_checks = 1
    fs = 0

    def __init__(self, path):
        with open(path) as f:
            self.ov = json.load(f)
        self.name = self.ov["unit"]
        self.fn = self.ov["fn"]
        self.desc = self.ov["statement"]
        self.domain = "all inputs satisfying the requires clause (no bound on vector length)"
        self.props = dict(self.ov.get("props", {}))
        self.src_file = os.path.basename(self.ov["source"])
        self.contract_file = path

    def wanted(self, prop, tier):
        t = self.props.get(prop)
        return t is not None and (t == "quick" or tier == "thorough")

    def feature_sets(self, tier):
        return ["default"]


def all_obligations():
    obs = []
    if os.path.isdir(VERUS_DIR):
        for fn in sorted(os.listdir(VERUS_DIR)):
            if fn.endswith(".overlay.json"):
                obs.append(VObligation(os.path.join(VERUS_DIR, fn)))
    return obs


class AnchorLost(Exception):
    pass


def extract_fn(lines, anchor, after=None):
    """Return (start, end) line indexes of the function whose signature line (trimmed) equals `anchor`.
    The anchor must be unique, or - when `after` (the exact text of a unique earlier line, e.g. an impl header) is given -
    the first occurrence following that line is taken."""
    idx = [i for i, l in enumerate(lines) if l.strip() == anchor]
    if after is not None:
        a = [i for i, l in enumerate(lines) if l.strip() == after]
        if len(a) != 1:
            raise AnchorLost("context anchor %r found %d times" % (after, len(a)))
        idx = [i for i in idx if i > a[0]][:1]
    if len(idx) != 1:
        raise AnchorLost("signature anchor %r found %d times" % (anchor, len(idx)))
    start = idx[0]
    depth = 0
    seen_open = False
    for j in range(start, len(lines)):
        # braces inside string/char literals do not occur in the anchored functions; comments are skipped
        code = re.sub(r"//.*", "", lines[j])
        code = re.sub(r'"(?:[^"\\\\]|\\\\.)*"', '""', code)
        if "{" in code:
            seen_open = True
        depth += code.count("{") - code.count("}")
        if seen_open and depth == 0:
            return start, j
    raise AnchorLost("unbalanced braces after %r" % anchor)


def nth_line(body, text, occurrence):
    hits = [i for i, l in enumerate(body) if l.strip() == text]
    if len(hits) < occurrence:
        raise AnchorLost("statement anchor %r: occurrence %d not found (%d present)" % (text, occurrence, len(hits)))
    return hits[occurrence - 1]


def build_unit(ob, src_text):
    ov = ob.ov
    lines = src_text.split("\n")
    log = []
    # X6: type shape check
    other = ov.get("type_check_files", {})
    for needle in ov.get("type_checks", []):
        hay = lines
        if needle in other:
            try:
                with open(os.path.join(REPO, other[needle])) as f:
                    hay = f.read().split("\n")
            except OSError:
                raise AnchorLost("declaration file %s missing" % other[needle])
        if not any(l.strip() == needle for l in hay):
            raise AnchorLost("declaration changed: %r not found" % needle)
    log.append("X6 %d type/use declarations match the prelude" % len(ov.get("type_checks", [])))
    with open(os.path.join(VERUS_DIR, ov["prelude"])) as f:
        text = f.read()
    for item in ov["items"]:
        s, e = extract_fn(lines, item["anchor"], item.get("anchor_after"))
        body = list(lines[s:e + 1])
        sha = hashlib.sha256("\n".join(body).encode()).hexdigest()
        log.append("X1 %s: lines %d-%d of %s, sha256 %s" % (item["anchor"], s + 1, e + 1, ov["source"], sha[:16]))
        if item.get("drop_attrs"):
            log.append("X2 dropped attributes above the item: %s" % ", ".join(item["drop_attrs"]))
        if item.get("anchor_end"):
            ends = [k for k, l in enumerate(body) if l.strip() == item["anchor_end"]]
            if not ends:
                raise AnchorLost("signature end %r not found" % item["anchor_end"])
            body[0:ends[0] + 1] = ["    " + item["signature"]]
        else:
            body[0] = "    " + item["signature"]
        log.append("X5 requires/ensures attached to the signature of %s" % item["marker"])
        ops = []
        for ins in item.get("insertions", []):
            if "replace_line" in ins:
                ops.append((nth_line(body, ins["replace_line"], ins.get("occurrence", 1)), "replace", ins))
            elif "after_line" in ins:
                ops.append((nth_line(body, ins["after_line"], ins.get("occurrence", 1)), "after", ins))
            else:
                ops.append((nth_line(body, ins["before_line"], ins.get("occurrence", 1)), "before", ins))
        for k, how, ins in sorted(ops, key=lambda t: -t[0]):
            new = ins["with"].split("\n")
            if how == "replace":
                indent = body[k][:len(body[k]) - len(body[k].lstrip())]
                body[k:k + 1] = [indent + new[0]] + new[1:]
            elif how == "after":
                if not body[k].rstrip().endswith((";", "{", "}")):
                    # X5s: a unit-typed tail expression becomes a statement (`;` appended) so that ghost code may follow
                    body[k] = body[k].rstrip() + ";"
                    log.append("X5s terminated the tail expression %r with `;`" % ins["after_line"])
                body[k + 1:k + 1] = new
            else:
                body[k:k] = new
            log.append("%s %s %r (occurrence %d)" % (ins["rule"], how, ins.get("replace_line") or ins.get("after_line")
                                                     or ins.get("before_line"), ins.get("occurrence", 1)))
        marker = "//@@EXTRACTED:%s@@" % item["marker"]
        if text.count(marker) != 1:
            raise AnchorLost("prelude marker %s missing" % marker)
        text = text.replace(marker, "\n".join(body))
    return text, log


def _error_descriptions(out):
    """One description per Verus error: the message plus the first source line the error points at (the failed
    ensures/requires/assert clause), so that two different failed clauses of one function are distinguishable."""
    descs = []
    blocks = re.split(r"(?m)^(?=error)", out)
    for b in blocks:
        m = re.match(r"error(?:\[[A-Z0-9]+\])?: (.*)", b)
        if not m:
            continue
        msg = m.group(1).strip()
        if msg.startswith("aborting due to"):
            continue
        code = re.search(r"(?m)^\s*\d+ \|[ /|]*(\S.*)$", b)
        if code:
            msg += " :: " + code.group(1).strip()[:160]
        descs.append(msg)
    return descs


def run_group(pid, obs, args, records, log, mk_record):
    for ob in obs:
        t0 = time.time()
        src = os.path.join(REPO, ob.ov["source"])
        d = tempfile.mkdtemp(prefix="regress-verif-verus-", dir=scratch_parent())
        try:
            try:
                with open(src) as f:
                    text, xlog = build_unit(ob, f.read())
            except (AnchorLost, OSError) as e:
                r = {"status": "undecided", "reason": "extraction: %s" % e, "n_checks": 0, "failed": [],
                     "covers_total": 0, "covers_satisfied": 0, "solver_s": None, "wall_s": 0, "cmd": ""}
                records.append(mk_record(ob, "default", r))
                log("  %-44s %-10s - %s" % (ob.name, "undecided", r["reason"][:160]))
                continue
            path = os.path.join(d, "%s.rs" % ob.name)
            with open(path, "w") as f:
                f.write(text)
            cmd = ["verus", path, "--time", "--triggers-mode", "silent"]
            rc, out, secs, to = run(cmd, cwd=d, timeout=ob.timeout)
            m = re.search(r"verification results:: (\d+) verified, (\d+) errors", out)
            r = {"n_checks": 0, "failed": [], "covers_total": 0, "covers_satisfied": 0, "solver_s": None,
                 "wall_s": round(secs, 1), "cmd": "verus <extracted %s + overlay> --time" % ob.ov["source"],
                 "reason": "", "extraction_log": xlog}
            ms = re.search(r"total-time:\s+(\d+) ms", out) or re.search(r"smt-run:\s+(\d+) ms", out)
            if ms:
                r["solver_s"] = int(ms.group(1)) / 1000.0
            if to:
                r["status"], r["reason"] = "undecided", "verus timeout"
            elif m and int(m.group(2)) == 0 and int(m.group(1)) > 0 and rc == 0:
                r["status"] = "discharged"
                r["n_checks"] = int(m.group(1))
            elif m and int(m.group(2)) > 0:
                errs = _error_descriptions(out)
                if any("rlimit" in e.lower() or "resource limit" in e.lower() for e in errs):
                    r["status"], r["reason"] = "undecided", "verus rlimit: " + "; ".join(errs[:2])
                else:
                    r["status"] = "violated"
                    r["n_checks"] = int(m.group(1)) + int(m.group(2))
                    r["failed"] = [{"id": ob.name, "description": e, "location": ob.fn} for e in errs[:6]]
                    r["reason"] = "; ".join(errs[:3])
            else:
                r["status"] = "undecided"
                errs = re.findall(r"^error.*$", out, re.M)
                r["reason"] = "verus did not produce a verdict (unsupported construct or syntax): " + " | ".join(errs[:3])
            k = out.find("error")
            r["_out"] = (out[k:k + 5000] if k >= 0 else "") + "\n...\n" + out[-1500:]
            rec = mk_record(ob, "default", r)
            rec["extraction_log"] = xlog
            # mechanical scan of the verified text for assumptions
            trusted = re.findall(r"#\[verifier::external_body\]\s*\n\s*(?:pub )?(?:proof )?fn (\w+)", text)
            rec["stubs"] = ["external_body (assumed contract): %s" % t for t in trusted]
            rec["stubs"] += ["assume_specification (assumed std contract): %s" % t
                             for t in re.findall(r"assume_specification<[^>]*>\s*\[\s*([\w:]+)\s*\]", text)]
            rec["assumes"] = len(re.findall(r"\bassume\(|\badmit\(", text))
            if r["status"] == "violated":
                rec["_res"] = r
                rec["_playback"] = {}
                rec["_native"] = {"attempted": False, "note": "Verus gives no counterexample"}
            records.append(rec)
            log("  %-44s %-10s %5.0fs %5d fns %s" % (ob.name, r["status"], secs, r["n_checks"],
                                                     ("- " + r["reason"][:160]) if r["reason"] else ""))
        finally:
            shutil.rmtree(d, ignore_errors=True)
