#!/usr/bin/env python3
"""Regenerate /verif/MANIFEST.json from the obligation catalogue (run by hand after editing contracts)."""
import json
import os
import sys

sys.path.insert(0, os.path.dirname(os.path.dirname(os.path.abspath(__file__))))
from vlib import props, units, verus_run, typelevel  # noqa: E402

VERIF = os.path.dirname(os.path.dirname(os.path.abspath(__file__)))

NOT_APPLICABLE = {
    "C07": "totality of compilation needs contracts over the recursive-descent parser, the optimizer and the emitter: "
           "recursion over ir::Node, Peekable, String and hashbrown do not close under Kani (10 min / 6-20 GB) and are "
           "rejected by Verus; stack exhaustion is outside both tools' models; the few numeric helpers that do verify do "
           "not address 'any input yields Ok or Err'",
    "C08": "acceptance of exactly L(ES2025 Pattern[flags]) needs a grammar specification and a contract over the whole "
           "recursive-descent parser (Peekable/HashMap/String: rejected by Verus, intractable through try_parse in "
           "Kani); the table-like pieces are discharged under C18/C12",
}
PENDING = "contracts for this property are not built yet in this revision (no obligation is registered); nothing is claimed"

TECH = {
    "C19": "rustc trait solver: custom auto trait DeepFrozen + Send/Sync bounds (type-level frame condition)",
}


def main():
    obs = units.all_kani_obligations() + verus_run.all_obligations() + typelevel.all_obligations()
    ids = ["C%02d" % i for i in range(1, 21)]
    checks = []
    na = []
    for pid in ids:
        q = [o for o in obs if o.wanted(pid, "quick")]
        t = [o for o in obs if o.wanted(pid, "thorough")]
        if pid in NOT_APPLICABLE:
            na.append({"property_id": pid, "reason": NOT_APPLICABLE[pid]})
            continue
        if not q:
            na.append({"property_id": pid, "reason": PENDING})
            continue
        backends = sorted(set(o.backend for o in t))
        kinds = {}
        for o in t:
            kinds[o.kind] = kinds.get(o.kind, 0) + 1
        level, expl = props.PROPS[pid]
        checks.append({
            "property_id": pid,
            "quick_cmd": "./check %s --tier quick" % pid,
            "thorough_cmd": "./check %s --tier thorough" % pid,
            "evidence_file": "evidence/%s.json" % pid,
            "replay_cmd_template": "./check %s --replay {path}" % pid,
            "engine": "contracts",
            "level_claimed": {
                "category": level,
                "text": expl,
                "design_ref": "DESIGN.md section 5.%s" % pid,
            },
            "level_note": "Trusted: " + "; ".join(props.FIXED_TRUSTED) + ". Assumed: " +
                          "; ".join(props.ASSUMPTIONS.get(pid, ["see evidence.assumptions (stubs are listed per obligation)"])),
            "technique": TECH.get(pid, "contract-based deductive verification of the real functions: %d obligations (%s) "
                                       "discharged by %s on an annotated scratch copy of /repo" % (
                len(t), ", ".join("%d %s" % (v, k) for k, v in sorted(kinds.items())),
                " + ".join({"kani": "Kani 0.68/CBMC 6.11", "verus": "Verus 0.2026.09.13/Z3",
                            "rustc": "rustc trait solver"}[b] for b in backends))),
        })
    man = {
        "version": 1,
        "setup_cmd": "python3 -c \"import sys; sys.exit(0)\" && chmod +x check",
        "hooks": {
            "guard": "cfg(kani)",
            "enable": "cargo kani sets cfg(kani); contract modules are appended to a scratch copy of /repo only "
                      "(no source change in /repo is needed: child modules reach private items)",
            "baseline_off_cmd": "cd /repo && cargo nextest run --workspace --no-fail-fast --tool-config-file "
                                "pb:/w/lib/nextest.toml --profile pb --test-threads 8 --offline || "
                                "(cd /repo && cargo test --workspace --no-fail-fast --offline)",
            "source_commits": [],
            "add_only": True,
        },
        "engines": [{
            "name": "contracts",
            "path": "check",
            "serves_properties": [c["property_id"] for c in checks],
            "kind_free_text": "Kani function-level proof harnesses (contracts as assert/assume over symbolic full-domain "
                              "inputs, stubs as assumed contracts of callees), Verus on mechanically extracted functions, "
                              "rustc trait solver for the type-level unit",
        }],
        "checks": checks,
        "not_applicable": na,
        "notes": "Exit codes of ./check: 0 all obligations discharged (or listed known findings), 1 violated obligation "
                 "(VIOLATION line), 2 undecided (tool limit, lost anchor) - never an alarm. fix: commits in /repo: "
                 "91725ba, a6301c8, c5e9301, 0587f15, bd766f1, 9e0fd82 (see known_findings.json).",
    }
    with open(os.path.join(VERIF, "MANIFEST.json"), "w") as f:
        json.dump(man, f, indent=1)
        f.write("\n")
    print("claimed:", [c["property_id"] for c in checks])
    print("not applicable:", [n["property_id"] for n in na])


if __name__ == "__main__":
    main()
