"""Build the annotated scratch crate: a copy of /repo's current working tree plus
`#[cfg(kani)] mod __verif` child modules appended to the source files (nothing else is changed)."""
import atexit
import glob
import hashlib
import os
import shutil
import signal
import sys
import tempfile

from .common import CONTRACTS, REPO, run, scratch_parent

_SCRATCHES = []


def _cleanup():
    for d in _SCRATCHES:
        shutil.rmtree(d, ignore_errors=True)


atexit.register(_cleanup)


def _on_signal(signum, frame):
    _cleanup()
    sys.exit(128 + signum)


for _s in (signal.SIGTERM, signal.SIGINT, signal.SIGHUP):
    try:
        signal.signal(_s, _on_signal)
    except (ValueError, OSError):
        pass


def sha256_file(path):
    h = hashlib.sha256()
    with open(path, "rb") as f:
        h.update(f.read())
    return h.hexdigest()


def make_scratch(tag):
    """Copy /repo's working tree (no target/, no .git) to a fresh directory; returns its path."""
    d = tempfile.mkdtemp(prefix="regress-verif-%s-" % tag, dir=scratch_parent())
    _SCRATCHES.append(d)
    rc, out, _, _ = run(["rsync", "-a", "--exclude", "/target", "--exclude", ".git", REPO + "/", d + "/"])
    if rc != 0:
        raise RuntimeError("rsync of %s failed: %s" % (REPO, out))
    os.makedirs(os.path.join(d, ".cargo"), exist_ok=True)
    with open(os.path.join(d, ".cargo", "config.toml"), "w") as f:
        f.write("[net]\noffline = true\n")
    return d


def drop_scratch(d):
    shutil.rmtree(d, ignore_errors=True)
    if d in _SCRATCHES:
        _SCRATCHES.remove(d)


def inject_attrs(scratch):
    """Insert the attribute lines of contracts/attrs.json above the named declarations (scratch copy only).
    Returns a log [{file, decl, attr, applied}]. A declaration that is not found exactly once is skipped (and logged):
    obligations that depend on it then time out and are reported undecided, never as violations."""
    import json
    import re
    path = os.path.join(CONTRACTS, "attrs.json")
    log = []
    if not os.path.exists(path):
        return log
    with open(path) as f:
        spec = json.load(f)
    for a in spec.get("attrs", []):
        fp = os.path.join(scratch, a["file"])
        entry = {"file": a["file"], "decl": a["decl"], "attr": a["attr"], "applied": False}
        try:
            with open(fp) as f:
                text = f.read()
            m = list(re.finditer(r"^([ \t]*)" + re.escape(a["decl"]) + r"[ \t]*$", text, re.M))
            if len(m) == 1:
                ind = m[0].group(1)
                text = text[:m[0].start()] + ind + a["attr"] + "\n" + text[m[0].start():]
                with open(fp, "w") as f:
                    f.write(text)
                entry["applied"] = True
        except OSError:
            pass
        log.append(entry)
    return log


def inject_kani_modules(scratch, contract_files=None):
    """Append each contracts/<file>.kani.rs to src/<file>.rs of the scratch copy.
    Returns a log: [{src, contract, src_sha256, missing}]"""
    log = []
    if contract_files is None:
        contract_files = sorted(glob.glob(os.path.join(CONTRACTS, "*.kani.rs")))
    for cf in contract_files:
        base = os.path.basename(cf).replace(".kani.rs", "")
        nested = None
        if "." in base:
            # <file>.<module>.kani.rs : the contract module is inserted as a child of the nested module `mod <module> {`
            # of src/<file>.rs (just before that module's closing brace) instead of at the end of the file
            base, nested = base.split(".", 1)
        src_name = base + ".rs"
        src = os.path.join(scratch, "src", src_name)
        entry = {"src": "src/" + src_name, "contract": os.path.relpath(cf, os.path.dirname(CONTRACTS))}
        if nested:
            entry["nested_module"] = nested
        if not os.path.exists(src):
            entry["missing"] = True
            log.append(entry)
            continue
        entry["src_sha256"] = sha256_file(src)
        with open(cf) as f:
            text = f.read()
        if nested:
            with open(src) as f:
                stext = f.read()
            import re
            m = re.search(r"^([ \t]*)mod %s \{[ \t]*$" % re.escape(nested), stext, re.M)
            if not m:
                entry["missing"] = True
                log.append(entry)
                continue
            # matching closing brace of the nested module
            depth = 0
            k = m.end() - 1
            end = None
            while k < len(stext):
                c = stext[k]
                if c == "{":
                    depth += 1
                elif c == "}":
                    depth -= 1
                    if depth == 0:
                        end = k
                        break
                k += 1
            if end is None:
                entry["missing"] = True
                log.append(entry)
                continue
            stext = stext[:end] + "\n// ---- injected by /verif (cfg(kani) only) ----\n" + text + "\n" + stext[end:]
            with open(src, "w") as f:
                f.write(stext)
        else:
            with open(src, "a") as f:
                f.write("\n// ---- injected by /verif (cfg(kani) only) ----\n")
                f.write(text)
        log.append(entry)
    return log
