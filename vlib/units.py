"""Obligation catalogue: parsed from the `// @obligation ...` headers in /verif/contracts/*.kani.rs
(and *.verus.rs / typelevel units registered in python)."""
import glob
import os
import re
import shlex

from .common import CONTRACTS

_KV = re.compile(r'(\w+)=("(?:[^"\\]|\\.)*"|\S*)')


class Obligation:
    def __init__(self, d, src_file, contract_file, desc):
        self.name = d["name"]
        self.src_file = src_file            # e.g. "util.rs" (relative to /repo/src)
        self.contract_file = contract_file
        self.desc = desc
        self.fn = d.get("fn", "")
        self.kind = d.get("kind", "bounded")  # complete | bounded | unbounded
        self.bound = d.get("bound", "")
        self.domain = d.get("domain", "")
        self.backend = d.get("backend", "kani")
        self.timeout = int(d.get("timeout", "300"))
        self.weight = int(d.get("w", "1"))
        self.unwindset = d.get("unwindset", "")
        self.extra = d.get("extra", "")
        self.finding = d.get("finding", "")
        self.min_checks = int(d.get("min_checks", "1"))
        self.solver = d.get("solver", "")
        # CBMC --max-field-sensitivity-array-size (default 64 loses constant propagation through Vec<Insn> of > 2 elements)
        self.fs = int(d.get("fs", "1024"))
        # opt-in: disregard failures of Kani's C model of free()/__rust_dealloc (kani_lib.c) for this obligation
        self.ignore_free_model = d.get("ignore_free_model", "") == "1"
        # props: "C01,C04:t" -> {C01: quick, C04: thorough}
        self.props = {}
        for p in d.get("props", "").split(","):
            p = p.strip()
            if not p:
                continue
            if p.endswith(":t"):
                self.props[p[:-2]] = "thorough"
            else:
                self.props[p] = "quick"
        # feature sets under which this obligation is discharged
        self.features = [f.strip() for f in d.get("features", "default").split(";") if f.strip()]
        self.features_thorough = [f.strip() for f in d.get("features_thorough", "").split(";") if f.strip()]

    @property
    def module(self):
        return os.path.splitext(self.src_file)[0]

    def harness_path(self):
        nested = getattr(self, "nested", "")
        if nested:
            return "%s::%s::__verif::%s" % (self.module, nested, self.name)
        return "%s::__verif::%s" % (self.module, self.name)

    def wanted(self, prop, tier):
        t = self.props.get(prop)
        if t is None:
            return False
        return t == "quick" or tier == "thorough"

    def feature_sets(self, tier):
        fs = list(self.features)
        if tier == "thorough":
            fs += [f for f in self.features_thorough if f not in fs]
        return fs


def parse_contract_file(path):
    base = os.path.basename(path).replace(".kani.rs", "")
    nested = ""
    if "." in base:
        base, nested = base.split(".", 1)
    src_file = base + ".rs"
    obs = []
    with open(path) as f:
        lines = f.read().split("\n")
    i = 0
    while i < len(lines):
        s = lines[i].strip()
        if s.startswith("// @obligation"):
            d = {}
            for k, v in _KV.findall(s[len("// @obligation"):]):
                if v.startswith('"'):
                    v = v[1:-1]
                d[k] = v
            desc = []
            j = i + 1
            while j < len(lines) and lines[j].strip().startswith("//") and not lines[j].strip().startswith("// @"):
                desc.append(lines[j].strip()[2:].strip())
                j += 1
            if "name" not in d:
                raise ValueError("%s:%d obligation without name" % (path, i + 1))
            ob = Obligation(d, src_file, path, " ".join(desc))
            ob.nested = nested
            obs.append(ob)
            i = j
        else:
            i += 1
    return obs


def all_kani_obligations():
    obs = []
    for path in sorted(glob.glob(os.path.join(CONTRACTS, "*.kani.rs"))):
        obs.extend(parse_contract_file(path))
    names = {}
    for o in obs:
        if o.name in names:
            raise ValueError("duplicate obligation name %s (%s, %s)" % (o.name, o.contract_file, names[o.name]))
        names[o.name] = o.contract_file
    return obs
