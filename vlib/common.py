"""Shared paths and small helpers for the /verif contract-verification framework."""
import json
import os
import re
import resource
import shlex
import shutil
import subprocess
import tempfile
import threading
import time

VERIF = os.path.dirname(os.path.dirname(os.path.abspath(__file__)))
REPO = os.environ.get("VERIF_REPO", "/repo")
CONTRACTS = os.path.join(VERIF, "contracts")
EVIDENCE = os.path.join(VERIF, "evidence")
REPLAYS = os.path.join(VERIF, "replays")
KNOWN_FINDINGS = os.path.join(VERIF, "known_findings.json")

# Exit codes of ./check
EXIT_OK = 0
EXIT_VIOLATION = 1
EXIT_UNDECIDED = 2


def scratch_parent():
    """Scratch copies live outside /repo and /verif and are removed on exit."""
    return os.environ.get("VERIF_SCRATCH", os.environ.get("TMPDIR", "/var/tmp"))


def offline_env(extra=None):
    env = dict(os.environ)
    env["CARGO_NET_OFFLINE"] = "true"
    env.setdefault("CARGO_TERM_COLOR", "never")
    # never let a stray RUSTFLAGS/target dir of the caller leak into the scratch build
    env.pop("CARGO_TARGET_DIR", None)
    if extra:
        env.update(extra)
    return env


# Processes the memory cap of run() applies to: the back-end solvers, never the driver (cargo / kani-driver).
# kani-driver keeps the parsed CBMC output of every harness of a batch in memory (measured: 8 GB resident after the
# 12 harnesses of C17, while no CBMC exceeded 5.7 GB), so an RLIMIT_AS inherited from the driver made the driver
# itself die with "memory allocation of N bytes failed" near the end of a long batch, and every harness still running
# lost its verdict (undecided, exit 2, on an unchanged tree).
_CAPPED_COMMS = ("cbmc", "goto-instrument", "goto-synthesizer", "kissat", "z3", "cvc5")


def _cap_session(sid, limit, seen):
    """Set RLIMIT_AS = limit on every solver process of session `sid` not yet in `seen`."""
    try:
        pids = [d for d in os.listdir("/proc") if d.isdigit()]
    except OSError:
        return
    for d in pids:
        pid = int(d)
        if pid in seen:
            continue
        try:
            with open("/proc/%s/stat" % d) as f:
                st = f.read()
        except OSError:
            continue
        l, r = st.find("("), st.rfind(")")
        if l < 0 or r < 0:
            continue
        rest = st[r + 2:].split()
        if len(rest) < 4 or int(rest[3]) != sid or st[l + 1:r] not in _CAPPED_COMMS:
            continue
        try:
            resource.prlimit(pid, resource.RLIMIT_AS, (limit, limit))
            seen.add(pid)
        except (OSError, ValueError):
            pass


def run(cmd, cwd=None, env=None, timeout=None, mem_gb=None):
    """Run a command, return (rc, output, seconds, timed_out). Output is stdout+stderr merged.
    mem_gb caps the address space of each solver process (see _CAPPED_COMMS) the command spawns."""
    if isinstance(cmd, str):
        cmd = shlex.split(cmd)
    t0 = time.time()
    try:
        p = subprocess.Popen(cmd, cwd=cwd, env=env or offline_env(), stdout=subprocess.PIPE,
                             stderr=subprocess.STDOUT, start_new_session=True)
    except OSError as e:
        return 127, str(e), 0.0, False
    stop = threading.Event()
    if mem_gb:
        limit, seen = int(mem_gb * (1 << 30)), set()

        def watch():
            while not stop.is_set():
                _cap_session(p.pid, limit, seen)
                stop.wait(0.25)
        threading.Thread(target=watch, daemon=True).start()
    timed_out = False
    try:
        out, _ = p.communicate(timeout=timeout)
    except subprocess.TimeoutExpired:
        timed_out = True
        try:
            os.killpg(p.pid, 9)
        except OSError:
            pass
        out, _ = p.communicate()
    finally:
        stop.set()
    return p.returncode, out.decode("utf-8", "replace"), time.time() - t0, timed_out


def load_json(path, default=None):
    try:
        with open(path) as f:
            return json.load(f)
    except (OSError, ValueError):
        return default


def write_json(path, obj):
    os.makedirs(os.path.dirname(path), exist_ok=True)
    tmp = path + ".tmp"
    with open(tmp, "w") as f:
        json.dump(obj, f, indent=1, sort_keys=False)
        f.write("\n")
    os.replace(tmp, path)


def repo_head():
    rc, out, _, _ = run(["git", "-C", REPO, "rev-parse", "HEAD"])
    head = out.strip() if rc == 0 else "unknown"
    rc, out, _, _ = run(["git", "-C", REPO, "status", "--porcelain", "--untracked-files=no"])
    dirty = bool(out.strip()) if rc == 0 else None
    return head, dirty
