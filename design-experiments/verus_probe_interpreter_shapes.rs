use vstd::prelude::*;
verus! {

pub trait PositionType: Copy + Sized {
    spec fn off(&self) -> int;
}

pub trait InputIndexer: Copy + Sized {
    type Position: PositionType;
    type Element: Copy;
    spec fn len(&self) -> int;
    fn next_right(&self, pos: &mut Self::Position) -> (r: Option<Self::Element>)
        requires 0 <= old(pos).off() <= self.len(),
        ensures 0 <= final(pos).off() <= self.len(), final(pos).off() >= old(pos).off();
}

pub enum Insn {
    Goal,
    Char(u32),
    Jump { target: u32 },
    Alt { secondary: u32 },
    JustFail,
}

pub enum Bt<P> {
    Exhausted,
    SetPosition { ip: usize, pos: P },
}

pub struct M<'a, I: InputIndexer> {
    pub insns: &'a Vec<Insn>,
    pub bts: Vec<Bt<I::Position>>,
}

impl<'a, I: InputIndexer> M<'a, I> {
    fn try_backtrack(&mut self, ip: &mut usize, pos: &mut I::Position) -> (r: bool)
        requires old(self).bts@.len() >= 1, old(self).bts@[0] is Exhausted,
        ensures final(self).bts@.len() >= 1,
    {
        loop
            invariant self.bts@.len() >= 1, self.bts@[0] is Exhausted,
            decreases self.bts@.len(),
        {
            let n = self.bts.len();
            let bt = &self.bts[n - 1];
            match bt {
                Bt::Exhausted => return false,
                Bt::SetPosition { ip: saved_ip, pos: saved_pos } => {
                    *ip = *saved_ip;
                    *pos = *saved_pos;
                    self.bts.pop();
                    return true;
                }
            }
        }
    }

    #[verifier::exec_allows_no_decreases_clause]
    fn try_at_pos(&mut self, inp: I, mut ip: usize, mut pos: I::Position) -> (r: Option<I::Position>)
        requires old(self).bts@.len() == 1, old(self).bts@[0] is Exhausted, 0 <= pos.off() <= inp.len(),
    {
        let input = &inp;
        let re = self.insns;
        'nextinsn: loop
            invariant self.bts@.len() >= 1, self.bts@[0] is Exhausted, 0 <= pos.off() <= inp.len(),
        {
            'backtrack: loop
                invariant self.bts@.len() >= 1, self.bts@[0] is Exhausted, 0 <= pos.off() <= inp.len(),
            {
                if ip >= re.len() { return None; }
                match &re[ip] {
                    Insn::Char(c) => {
                        let m = match input.next_right(&mut pos) { Some(_) => true, None => false };
                        if m { ip += 1; continue 'nextinsn; } else { break 'backtrack; }
                    }
                    Insn::Jump { target } => { ip = *target as usize; continue 'nextinsn; }
                    Insn::Alt { secondary } => {
                        self.bts.push(Bt::SetPosition { ip: *secondary as usize, pos });
                        ip += 1; continue 'nextinsn;
                    }
                    Insn::Goal => { self.bts.truncate(1); return Some(pos); }
                    Insn::JustFail => { break 'backtrack; }
                }
            }
            if self.try_backtrack(&mut ip, &mut pos) { continue 'nextinsn; } else { return None; }
        }
    }
}

} // verus!
fn main() {}
