use vstd::prelude::*;
verus! {

pub type CodePoint = u32;
pub const CODE_POINT_MAX: CodePoint = 0x10FFFF;

#[derive(Copy, Clone, PartialEq, Eq)]
pub struct Interval {
    pub first: CodePoint,
    pub last: CodePoint,
}

pub struct CodePointSet {
    pub ivs: Vec<Interval>,
}

pub open spec fn iv_wf(iv: Interval) -> bool { iv.first <= iv.last && iv.last <= CODE_POINT_MAX }

pub open spec fn ivs_wf(s: Seq<Interval>) -> bool {
    (forall|i: int| 0 <= i < s.len() ==> iv_wf(#[trigger] s[i]))
    && (forall|i: int, j: int| 0 <= i < j < s.len() ==> (#[trigger] s[i]).last + 1 < (#[trigger] s[j]).first)
}

pub open spec fn ivs_has(s: Seq<Interval>, cp: int) -> bool {
    exists|i: int| 0 <= i < s.len() && (#[trigger] s[i]).first <= cp <= s[i].last
}

proof fn lemma_has_push(s: Seq<Interval>, iv: Interval, cp: int)
    ensures ivs_has(s.push(iv), cp) <==> (ivs_has(s, cp) || iv.first <= cp <= iv.last)
{
    let t = s.push(iv);
    if ivs_has(s, cp) {
        let i = choose|i: int| 0 <= i < s.len() && (#[trigger] s[i]).first <= cp <= s[i].last;
        assert(t[i] == s[i]);
    }
    if iv.first <= cp <= iv.last {
        assert(t[s.len() as int] == iv);
    }
    if ivs_has(t, cp) {
        let i = choose|i: int| 0 <= i < t.len() && (#[trigger] t[i]).first <= cp <= t[i].last;
        if i < s.len() { assert(t[i] == s[i]); }
    }
}

impl CodePointSet {
    pub open spec fn wf(&self) -> bool { ivs_wf(self.ivs@) }
    pub open spec fn has(&self, cp: int) -> bool { ivs_has(self.ivs@, cp) }

    pub fn inverted(&self) -> (r: CodePointSet)
        requires self.wf(),
        ensures r.wf(), forall|cp: int| 0 <= cp <= CODE_POINT_MAX ==> (r.has(cp) <==> !self.has(cp)),
    {
        // The intervals we collect.
        let mut inverted_ivs = Vec::new();

        // The first code point *not* in the previous interval.
        let mut start: CodePoint = 0;
        for iv in it: &self.ivs
            invariant
                self.wf(),
                ivs_wf(inverted_ivs@),
                start <= CODE_POINT_MAX + 1,
                it.index@ > 0 ==> start == self.ivs@[it.index@ - 1].last + 1,
                it.index@ == 0 ==> start == 0,
                forall|k: int| 0 <= k < inverted_ivs@.len() ==> (#[trigger] inverted_ivs@[k]).last + 1 < start,
                forall|cp: int| 0 <= cp < start ==> (ivs_has(inverted_ivs@, cp) <==> !ivs_has(self.ivs@, cp)),
        {
            proof {
                let k = it.index@;
                assert(*iv == self.ivs@[k]);
                assert(iv_wf(self.ivs@[k]));
                if k > 0 { assert(self.ivs@[k - 1].last + 1 < self.ivs@[k].first); }
            }
            let ghost old_inv = inverted_ivs@;
            let ghost old_start = start as int;
            if start < iv.first {
                inverted_ivs.push(Interval {
                    first: start,
                    last: iv.first - 1,
                });
                proof {
                    let niv = Interval { first: start, last: (iv.first - 1) as u32 };
                    assert(inverted_ivs@ == old_inv.push(niv));
                    assert forall|cp: int| true implies
                        (ivs_has(inverted_ivs@, cp) <==> (ivs_has(old_inv, cp) || niv.first <= cp <= niv.last)) by {
                        lemma_has_push(old_inv, niv, cp);
                    }
                }
            }
            start = iv.last + 1;
            proof {
                let k = it.index@;
                // membership in self for cp in [old_start, start)
                assert forall|cp: int| 0 <= cp < start implies
                    (ivs_has(inverted_ivs@, cp) <==> !ivs_has(self.ivs@, cp)) by {
                    if cp < old_start {
                        // old invariant; new interval (if any) starts at old_start
                        if ivs_has(old_inv, cp) != ivs_has(inverted_ivs@, cp) {
                            assert(false);
                        }
                    } else if cp < iv.first {
                        // in the gap: not in self
                        if ivs_has(self.ivs@, cp) {
                            let j = choose|j: int| 0 <= j < self.ivs@.len() && (#[trigger] self.ivs@[j]).first <= cp <= self.ivs@[j].last;
                            if j < k { if k > 0 { assert(self.ivs@[j].last + 1 <= self.ivs@[k-1].last + 1) by { if j < k - 1 { assert(self.ivs@[j].last + 1 < self.ivs@[k-1].first); } } } }
                            else if j > k { assert(self.ivs@[k].last + 1 < self.ivs@[j].first); }
                            assert(false);
                        }
                        assert(inverted_ivs@[inverted_ivs@.len() - 1].first <= cp <= inverted_ivs@[inverted_ivs@.len() - 1].last);
                    } else {
                        // inside iv
                        assert(self.ivs@[k].first <= cp <= self.ivs@[k].last);
                        if ivs_has(inverted_ivs@, cp) {
                            let j = choose|j: int| 0 <= j < inverted_ivs@.len() && (#[trigger] inverted_ivs@[j]).first <= cp <= inverted_ivs@[j].last;
                            if j < old_inv.len() { assert(inverted_ivs@[j] == old_inv[j]); }
                            assert(false);
                        }
                    }
                }
            }
        }
        let ghost old_inv = inverted_ivs@;
        let ghost n = self.ivs@.len() as int;
        if start <= CODE_POINT_MAX {
            inverted_ivs.push(Interval {
                first: start,
                last: CODE_POINT_MAX,
            })
        }
        proof {
            assert forall|cp: int| 0 <= cp <= CODE_POINT_MAX implies
                (ivs_has(inverted_ivs@, cp) <==> !ivs_has(self.ivs@, cp)) by {
                if start <= CODE_POINT_MAX {
                    let niv = Interval { first: start, last: CODE_POINT_MAX };
                    assert(inverted_ivs@ == old_inv.push(niv));
                    lemma_has_push(old_inv, niv, cp);
                }
                if cp >= start {
                    if ivs_has(self.ivs@, cp) {
                        let j = choose|j: int| 0 <= j < self.ivs@.len() && (#[trigger] self.ivs@[j]).first <= cp <= self.ivs@[j].last;
                        if n > 0 && j < n - 1 { assert(self.ivs@[j].last + 1 < self.ivs@[n - 1].first); }
                        assert(false);
                    }
                }
            }
        }
        CodePointSet { ivs: inverted_ivs }
    }
}

} // verus!
fn main() {}
