// Feasibility probe (design stage). Was appended verbatim to /repo/src/unicode.rs in a scratch copy.
// Not framework code; kept as a record of what was measured (see DESIGN.md section 3).

#[cfg(kani)]
mod verif {
    use super::*;

    #[kani::proof]
    #[kani::unwind(10)]
    fn fold_idempotent_all() {
        let c: u32 = kani::any();
        kani::assume(c <= 0x10FFFF);
        let f = fold(c);
        assert!(f <= 0x10FFFF);
        assert!(fold(f) == f);
    }

    #[kani::proof]
    #[kani::unwind(13)]
    fn uppercase_matches_std() {
        let c: char = kani::any();
        let u = uppercase(c as u32);
        let mut it = c.to_uppercase();
        let first = it.next().unwrap();
        let expect = if it.next().is_some() {
            c
        } else if (c as u32) >= 128 && (first as u32) < 128 {
            c
        } else {
            first
        };
        assert!(u == expect as u32);
    }

    #[kani::proof]
    #[kani::unwind(12)]
    fn alphabetic_matches_std() {
        let c: char = kani::any();
        let ours = crate::codepointset::interval_contains(crate::unicodetables::alphabetic_ranges(), c as u32);
        assert!(ours == c.is_alphabetic());
    }

    #[kani::proof]
    #[kani::unwind(12)]
    fn whitespace_matches_std() {
        let c: char = kani::any();
        let ours = crate::codepointset::interval_contains(crate::unicodetables::white_space_ranges(), c as u32);
        assert!(ours == c.is_whitespace());
    }
}
