// Feasibility probe (design stage). Was appended verbatim to /repo/src/api.rs in a scratch copy.
// Not framework code; kept as a record of what was measured (see DESIGN.md section 3).

#[cfg(kani)]
mod verif {
    use super::*;

    fn any_name() -> Box<str> {
        let k: u8 = kani::any();
        kani::assume(k < 3);
        match k { 0 => "".into(), 1 => "a".into(), _ => "b".into() }
    }
    fn any_cap() -> Option<Range> {
        if kani::any() {
            let s: usize = kani::any();
            let e: usize = kani::any();
            kani::assume(s <= e && e <= 4);
            Some(s..e)
        } else { None }
    }

    #[kani::proof]
    #[kani::unwind(5)]
    fn j1_named_group_agrees_with_iterator() {
        let caps = vec![any_cap(), any_cap()];
        let names: Box<[Box<str>]> = vec![any_name(), any_name()].into_boxed_slice();
        let m = Match { range: 0..4, captures: caps, group_names: names };
        // For the name "a": lookup must agree with what the iterator reports.
        let mut from_iter: Option<Option<Range>> = None;
        for (n, r) in m.named_groups() {
            if n == "a" { from_iter = Some(r); }
        }
        let direct = m.named_group("a");
        match from_iter {
            Some(r) => assert!(direct == r),
            None => assert!(direct.is_none()),
        }
        assert!(m.group(0) == Some(0..4));
        assert!(m.group(1) == m.captures[0]);
        assert!(m.group(2) == m.captures[1]);
        assert!(m.group(3).is_none());
    }

    fn any_tchar() -> char {
        let k: u8 = kani::any();
        kani::assume(k < 5);
        match k { 0 => '$', 1 => '1', 2 => '{', 3 => '}', _ => 'x' }
    }

    #[kani::proof]
    #[kani::unwind(6)]
    fn j2_expand_two_chars() {
        let re: Regex = crate::insn::CompiledRegex {
            insns: vec![crate::insn::Insn::Goal],
            brackets: vec![],
            start_pred: crate::insn::StartPredicate::Arbitrary,
            loops: 0,
            groups: 1,
            group_names: Vec::new().into_boxed_slice(),
            flags: Flags::default(),
        }.into();
        let text = "abcd";
        let m = Match { range: 1..3, captures: vec![any_cap()], group_names: Vec::new().into_boxed_slice() };
        let t0 = any_tchar();
        let t1 = any_tchar();
        let mut tmpl = String::new();
        tmpl.push(t0);
        tmpl.push(t1);
        let mut out = String::new();
        re.expand_replacement(&m, text, &tmpl, &mut out);
        // spec for 2-char templates
        let mut exp = String::new();
        if t0 == '$' && t1 == '$' { exp.push('$'); }
        else if t0 == '$' && t1 == '1' { if let Some(r) = m.captures[0].clone() { exp.push_str(&text[r]); } }
        else if t0 == '$' && t1 == '{' { exp.push_str("${"); }
        else { exp.push(t0); exp.push(t1); }
        assert!(out == exp);
    }
}
