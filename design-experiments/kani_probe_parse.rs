// Feasibility probe (design stage). Was appended verbatim to /repo/src/parse.rs in a scratch copy.
// Not framework code; kept as a record of what was measured (see DESIGN.md section 3).

#[cfg(kani)]
mod verif {
    use super::*;

    fn fixed_random_state() -> std::hash::RandomState {
        unsafe { core::mem::transmute::<[u64; 2], std::hash::RandomState>([1, 2]) }
    }

    fn parser<'a>(input: &'a [u32], flags: api::Flags) -> Parser<core::iter::Copied<core::slice::Iter<'a, u32>>> {
        Parser {
            input: input.iter().copied().peekable(),
            flags,
            loop_count: 0,
            group_count: 0,
            named_group_indices: HashMap::new(),
            group_count_max: 0,
            has_lookbehind: false,
            depth: 0,
        }
    }

    #[kani::proof]
    #[kani::unwind(4)]
    #[kani::stub(std::hash::RandomState::new, fixed_random_state)]
    fn escape_of_syntax_char_is_literal() {
        let c: u32 = kani::any();
        kani::assume(c <= 0x10FFFF);
        let unicode: bool = kani::any();
        let flags = api::Flags { unicode, ..Default::default() };
        let buf = [c];
        let mut p = parser(&buf, flags);
        let r = p.consume_character_escape();
        let syntax = matches!(to_char_sat(c), '^' | '$' | '\\' | '.' | '*' | '+' | '?' | '(' | ')' | '[' | ']' | '{' | '}' | '|');
        if syntax {
            assert!(r == Ok(c));
            assert!(p.peek().is_none());
        }
    }

    #[kani::proof]
    #[kani::unwind(6)]
    #[kani::stub(std::hash::RandomState::new, fixed_random_state)]
    fn disjunction_len2_total() {
        let c0: u32 = kani::any();
        let c1: u32 = kani::any();
        kani::assume(c0 <= 0x10FFFF && c1 <= 0x10FFFF);
        let unicode: bool = kani::any();
        let flags = api::Flags { unicode, ..Default::default() };
        let buf = [c0, c1];
        let mut p = parser(&buf, flags);
        let r = p.consume_disjunction();
        // Totality: we got here without panic. A '*' first must be an error.
        if c0 == '*' as u32 {
            assert!(r.is_err());
        }
    }
}
