#![feature(freeze, auto_traits, negative_impls)]
use core::cell::UnsafeCell;
use core::marker::Freeze;
pub auto trait DeepFrozen {}
impl<T: ?Sized> !DeepFrozen for UnsafeCell<T> {}
fn send_sync<T: Send + Sync>() {}
fn frozen<T: Freeze>() {}
fn deep<T: DeepFrozen>() {}
fn main() {
    send_sync::<regress::Regex>();
    send_sync::<regress::Match>();
    send_sync::<regress::Error>();
    frozen::<regress::Regex>();
    deep::<regress::Regex>();
    deep::<regress::Match>();
    deep::<regress::Error>();
    #[cfg(canary)]
    deep::<Vec<std::sync::Mutex<u8>>>();
    #[cfg(canary2)]
    deep::<Box<std::sync::atomic::AtomicUsize>>();
    println!("ok");
}
