// Feasibility probe (design stage). Was appended verbatim to /repo/src/codepointset.rs in a scratch copy.
// Not framework code; kept as a record of what was measured (see DESIGN.md section 3).

#[cfg(kani)]
mod verif {
    use super::*;

    fn any_wf_set(n: usize) -> CodePointSet {
        let mut ivs = Vec::new();
        let mut lo: u32 = 0;
        let mut first = true;
        for _ in 0..n {
            if kani::any() {
                let a: u32 = kani::any();
                let b: u32 = kani::any();
                kani::assume(a <= b && b <= CODE_POINT_MAX);
                if !first { kani::assume(a > lo + 1); }
                ivs.push(Interval { first: a, last: b });
                lo = b;
                first = false;
            }
        }
        CodePointSet::from_sorted_disjoint_intervals(ivs)
    }

    fn has(s: &CodePointSet, cp: u32) -> bool {
        let mut r = false;
        for iv in s.intervals() { if iv.first <= cp && cp <= iv.last { r = true; } }
        r
    }

    #[kani::proof]
    #[kani::unwind(6)]
    fn ck1_add() {
        let mut s = any_wf_set(2);
        let a: u32 = kani::any();
        let b: u32 = kani::any();
        kani::assume(a <= b && b <= CODE_POINT_MAX);
        let cp: u32 = kani::any();
        kani::assume(cp <= CODE_POINT_MAX);
        let before = has(&s, cp);
        s.add(Interval { first: a, last: b });
        assert!(has(&s, cp) == (before || (a <= cp && cp <= b)));
        assert!(s.contains(cp) == has(&s, cp));
    }

    #[kani::proof]
    #[kani::unwind(5)]
    fn ck1_add_len2() {
        let i0 = Interval { first: kani::any(), last: kani::any() };
        let i1 = Interval { first: kani::any(), last: kani::any() };
        kani::assume(i0.first <= i0.last && i0.last < CODE_POINT_MAX);
        kani::assume(i0.last + 1 < i1.first && i1.first <= i1.last && i1.last <= CODE_POINT_MAX);
        let mut s = CodePointSet::from_sorted_disjoint_intervals(vec![i0, i1]);
        let a: u32 = kani::any();
        let b: u32 = kani::any();
        kani::assume(a <= b && b <= CODE_POINT_MAX);
        let cp: u32 = kani::any();
        kani::assume(cp <= CODE_POINT_MAX);
        let before = (i0.first <= cp && cp <= i0.last) || (i1.first <= cp && cp <= i1.last);
        s.add(Interval { first: a, last: b });
        assert!(s.contains(cp) == (before || (a <= cp && cp <= b)));
        assert!(s.intervals().len() >= 1 && s.intervals().len() <= 3);
    }
}
