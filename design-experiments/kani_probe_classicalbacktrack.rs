// Feasibility probe (design stage). Was appended verbatim to /repo/src/classicalbacktrack.rs in a scratch copy.
// Not framework code; kept as a record of what was measured (see DESIGN.md section 3).

#[cfg(kani)]
mod verif {
    use super::*;
    use crate::api::Flags;
    use crate::insn::StartPredicate;

    fn mk(insns: Vec<Insn>, loops: u32, groups: u32) -> CompiledRegex {
        CompiledRegex {
            insns,
            brackets: vec![],
            start_pred: StartPredicate::Arbitrary,
            loops,
            groups,
            group_names: Box::new([]),
            flags: Flags::default(),
        }
    }

    fn any_opt_pos<'a>(input: &Utf8Input<'a>, n: usize) -> Option<<Utf8Input<'a> as InputIndexer>::Position> {
        if kani::any() {
            let k: usize = kani::any();
            kani::assume(k <= n);
            Some(input.left_end() + k)
        } else {
            None
        }
    }

    fn no_lookaround<'a, Input: InputIndexer, Dir: Direction>(
        _this: &mut MatchAttempter<'a, Input>,
        _input: &Input,
        _ip: IP,
        _pos: Input::Position,
        _start_group: CaptureGroupID,
        _end_group: CaptureGroupID,
        _negate: bool,
    ) -> bool where 'a: 'a {
        panic!("lookaround unreachable in this program")
    }

    // Undo discipline for EndCaptureGroup: [Alt->3, End(0), JustFail, Goal]
    #[kani::proof]
    #[kani::unwind(5)]
    #[kani::stub(MatchAttempter::run_lookaround, no_lookaround)]
    fn undo_end_capture_group() {
        let re = mk(
            vec![
                Insn::Alt { secondary: 3 },
                Insn::EndCaptureGroup(0),
                Insn::JustFail,
                Insn::Goal,
            ],
            0,
            1,
        );
        let b0: u8 = kani::any();
        kani::assume(b0 < 128);
        let buf = [b0];
        let s = unsafe { core::str::from_utf8_unchecked(&buf) };
        let input = Utf8Input::new(s, false);
        let mut m = MatchAttempter::<Utf8Input>::new(&re, input.left_end());
        let g0 = GroupData { start: any_opt_pos(&input, 1), end: any_opt_pos(&input, 1) };
        kani::assume(g0.start.is_some()); // group entered (code's own debug_assert)
        m.s.groups[0] = g0;
        let r = m.try_at_pos(input, 0, input.left_end(), Forward::new());
        assert!(r == Some(input.left_end()));
        assert!(m.s.groups[0].start == g0.start);
        assert!(m.s.groups[0].end == g0.end);
    }

    // run_loop decision table (complete over integers).
    #[kani::proof]
    #[kani::unwind(3)]
    fn run_loop_table() {
        let min: usize = kani::any();
        let max: usize = kani::any();
        kani::assume(min <= max);
        let greedy: bool = kani::any();
        let re = mk(
            vec![
                Insn::EnterLoop(LoopFields { loop_id: 0, min_iters: min, max_iters: max, greedy, exit: 3 }),
                Insn::JustFail,
                Insn::LoopAgain { begin: 0 },
                Insn::Goal,
            ],
            1,
            0,
        );
        let buf = [b'a', b'b'];
        let s = unsafe { core::str::from_utf8_unchecked(&buf) };
        let input = Utf8Input::new(s, false);
        let mut m = MatchAttempter::<Utf8Input>::new(&re, input.left_end());
        let iters: usize = kani::any();
        let e: usize = kani::any();
        let p: usize = kani::any();
        kani::assume(e <= 2 && p <= 2);
        kani::assume(iters < usize::MAX);
        m.s.loops[0] = LoopData { iters, entry: input.left_end() + e };
        let fields = match &re.insns[0] { Insn::EnterLoop(f) => f, _ => unreachable!() };
        let r = m.run_loop(fields, input.left_end() + p, 0);
        let empty_fail = e == p && iters > min;
        if empty_fail || (iters >= max && iters < min) {
            assert!(r.is_none());
        } else if iters >= max {
            assert!(r == Some(3));
        } else if iters < min {
            assert!(r == Some(1));
            assert!(m.s.loops[0].iters == iters + 1);
        } else if greedy {
            assert!(r == Some(1));
        } else {
            assert!(r == Some(3));
        }
    }

    // E3: [EndCaptureGroup(0), JustFail]: failure must restore State.
    #[kani::proof]
    #[kani::unwind(4)]
    #[kani::stub(MatchAttempter::run_lookaround, no_lookaround)]
    fn e3_end_capture_group() {
        let re = mk(vec![Insn::EndCaptureGroup(0), Insn::JustFail], 0, 1);
        let b0: u8 = kani::any();
        kani::assume(b0 < 128);
        let buf = [b0];
        let s = unsafe { core::str::from_utf8_unchecked(&buf) };
        let input = Utf8Input::new(s, false);
        let mut m = MatchAttempter::<Utf8Input>::new(&re, input.left_end());
        let g0 = GroupData { start: any_opt_pos(&input, 1), end: any_opt_pos(&input, 1) };
        kani::assume(g0.start.is_some());
        m.s.groups[0] = g0;
        let r = m.try_at_pos(input, 0, input.left_end(), Forward::new());
        assert!(r.is_none());
        assert!(m.bts.len() == 1);
        assert!(m.s.groups[0].start == g0.start);
        assert!(m.s.groups[0].end == g0.end);
    }

    // E3: [EnterLoop, JustFail, LoopAgain, JustFail]: failure must restore loop data.
    #[kani::proof]
    #[kani::unwind(5)]
    #[kani::stub(MatchAttempter::run_lookaround, no_lookaround)]
    fn e3_enter_loop() {
        let min: usize = kani::any();
        let max: usize = kani::any();
        kani::assume(min <= max);
        let greedy: bool = kani::any();
        let re = mk(
            vec![
                Insn::EnterLoop(LoopFields { loop_id: 0, min_iters: min, max_iters: max, greedy, exit: 3 }),
                Insn::JustFail,
                Insn::LoopAgain { begin: 0 },
                Insn::JustFail,
            ],
            1,
            0,
        );
        let buf = [b'a'];
        let s = unsafe { core::str::from_utf8_unchecked(&buf) };
        let input = Utf8Input::new(s, false);
        let mut m = MatchAttempter::<Utf8Input>::new(&re, input.left_end());
        let iters: usize = kani::any();
        let e: usize = kani::any();
        kani::assume(e <= 1);
        let l0 = LoopData { iters, entry: input.left_end() + e };
        m.s.loops[0] = l0;
        let r = m.try_at_pos(input, 0, input.left_end(), Forward::new());
        assert!(r.is_none());
        assert!(m.bts.len() == 1);
        assert!(m.s.loops[0].iters == l0.iters);
        assert!(m.s.loops[0].entry == l0.entry);
    }

    // ---- Oracle stub for try_at_pos (F units) ----
    static mut ORACLE: [Option<usize>; 4] = [None; 4];
    static mut LOG: [usize; 8] = [0; 8];
    static mut LOG_N: usize = 0;

    fn oracle_try_at_pos<'a, Input: InputIndexer, Dir: Direction>(
        _this: &mut MatchAttempter<'a, Input>,
        inp: Input,
        _ip: IP,
        pos: Input::Position,
        _dir: Dir,
    ) -> Option<Input::Position> where 'a: 'a {
        let off = inp.pos_to_offset(pos);
        unsafe {
            assert!(LOG_N < 8);
            LOG[LOG_N] = off;
            LOG_N += 1;
            match ORACLE[off] {
                Some(e) => Some(inp.left_end() + e),
                None => None,
            }
        }
    }

    #[kani::proof]
    #[kani::unwind(6)]
    #[kani::stub(MatchAttempter::try_at_pos, oracle_try_at_pos)]
    fn f1_driver_bitmap() {
        let re = mk(vec![Insn::Goal], 0, 0);
        let b: [u8; 3] = kani::any();
        kani::assume(b[0] < 128 && b[1] < 128 && b[2] < 128);
        let s = unsafe { core::str::from_utf8_unchecked(&b) };
        let input = Utf8Input::new(s, false);
        // Arbitrary deterministic oracle respecting the contract start <= end <= len.
        for i in 0..4 {
            let r: Option<usize> = kani::any();
            if let Some(e) = r { kani::assume(i <= e && e <= 3); }
            unsafe { ORACLE[i] = r; }
        }
        let admit: u8 = kani::any();
        let bm = bytesearch::ByteBitmap::new(&[admit]);
        let start: usize = kani::any();
        kani::assume(start <= 3);
        let mut ex = BacktrackExecutor { input, matcher: MatchAttempter::new(&re, input.left_end()) };
        let mut next: Option<<Utf8Input as InputIndexer>::Position> = None;
        let m = ex.next_match_with_prefix_search(input.left_end() + start, &mut next, &bm);
        // Spec: first offset p >= start with b[p]==admit (p<3) and ORACLE[p].is_some().
        let mut expect: Option<(usize, usize)> = None;
        let mut p = start;
        while p < 3 {
            if b[p] == admit {
                if let Some(e) = unsafe { ORACLE[p] } { expect = Some((p, e)); break; }
            }
            p += 1;
        }
        match (m, expect) {
            (None, None) => {}
            (Some(m), Some((p, e))) => {
                assert!(m.range == (p..e));
                let ns = next.map(|q| input.pos_to_offset(q));
                if e != p { assert!(ns == Some(e)); } else if e < 3 { assert!(ns == Some(e + 1)); } else { assert!(ns.is_none()); }
            }
            _ => assert!(false),
        }
        // Attempts only at admitted offsets, strictly increasing.
        unsafe {
            let mut i = 0;
            while i < LOG_N {
                assert!(LOG[i] < 3 && b[LOG[i]] == admit);
                if i > 0 { assert!(LOG[i - 1] < LOG[i]); }
                i += 1;
            }
        }
    }

    // E2 sample: WordBoundary step contract on 2 ASCII bytes at any position.
    #[kani::proof]
    #[kani::unwind(4)]
    #[kani::stub(MatchAttempter::run_lookaround, no_lookaround)]
    fn e2_word_boundary() {
        let invert: bool = kani::any();
        let re = mk(vec![Insn::WordBoundary { invert }, Insn::Goal], 0, 0);
        let b: [u8; 2] = kani::any();
        kani::assume(b[0] < 128 && b[1] < 128);
        let s = unsafe { core::str::from_utf8_unchecked(&b) };
        let input = Utf8Input::new(s, false);
        let p: usize = kani::any();
        kani::assume(p <= 2);
        let mut m = MatchAttempter::<Utf8Input>::new(&re, input.left_end());
        let r = m.try_at_pos(input, 0, input.left_end() + p, Forward::new());
        let w = |x: u8| x.is_ascii_alphanumeric() || x == b'_';
        let left = p > 0 && w(b[p - 1]);
        let right = p < 2 && w(b[p]);
        let expect = (left != right) != invert;
        assert!(r.is_some() == expect);
        if let Some(e) = r { assert!(e == input.left_end() + p); }
    }

    // E3 with concrete loop fields per decision branch, symbolic initial loop data.
    #[kani::proof]
    #[kani::unwind(5)]
    #[kani::stub(MatchAttempter::run_lookaround, no_lookaround)]
    fn e3_enter_loop_greedy_0_inf() {
        let re = mk(
            vec![
                Insn::EnterLoop(LoopFields { loop_id: 0, min_iters: 0, max_iters: usize::MAX, greedy: true, exit: 3 }),
                Insn::JustFail,
                Insn::LoopAgain { begin: 0 },
                Insn::JustFail,
            ],
            1,
            0,
        );
        let buf = [b'a'];
        let s = unsafe { core::str::from_utf8_unchecked(&buf) };
        let input = Utf8Input::new(s, false);
        let mut m = MatchAttempter::<Utf8Input>::new(&re, input.left_end());
        let iters: usize = kani::any();
        let e: usize = kani::any();
        kani::assume(e <= 1);
        let l0 = LoopData { iters, entry: input.left_end() + e };
        m.s.loops[0] = l0;
        let r = m.try_at_pos(input, 0, input.left_end(), Forward::new());
        assert!(r.is_none());
        assert!(m.bts.len() == 1);
        assert!(m.s.loops[0].iters == l0.iters);
        assert!(m.s.loops[0].entry == l0.entry);
    }

    // E4 sample: try_backtrack on a symbolic stack [Exhausted, X, Y].
    #[kani::proof]
    #[kani::unwind(5)]
    fn e4_try_backtrack() {
        let re = mk(vec![Insn::Goal], 1, 1);
        let b: [u8; 2] = kani::any();
        kani::assume(b[0] < 128 && b[1] < 128);
        let s = unsafe { core::str::from_utf8_unchecked(&b) };
        let input = Utf8Input::new(s, false);
        let mut m = MatchAttempter::<Utf8Input>::new(&re, input.left_end());
        let gd = GroupData { start: any_opt_pos(&input, 2), end: any_opt_pos(&input, 2) };
        let ld = LoopData { iters: kani::any(), entry: input.left_end() };
        let sp_ip: usize = kani::any();
        let sp_off: usize = kani::any();
        kani::assume(sp_off <= 2);
        m.bts.push(BacktrackInsn::SetPosition { ip: sp_ip, pos: input.left_end() + sp_off });
        m.bts.push(BacktrackInsn::SetLoopData { id: 0, data: ld });
        m.bts.push(BacktrackInsn::SetCaptureGroup { id: 0, data: gd });
        let mut ip: IP = kani::any();
        let mut pos = input.left_end();
        let ok = m.try_backtrack(&input, &mut ip, &mut pos, Forward::new());
        assert!(ok);
        assert!(ip == sp_ip && pos == input.left_end() + sp_off);
        assert!(m.bts.len() == 1);
        assert!(m.s.groups[0].start == gd.start && m.s.groups[0].end == gd.end);
        assert!(m.s.loops[0].iters == ld.iters);
    }

    // E3 minimal: enter-only loop {1,1}: [EnterLoop, JustFail, JustFail]
    #[kani::proof]
    #[kani::unwind(4)]
    #[kani::stub(MatchAttempter::run_lookaround, no_lookaround)]
    fn e3_enter_loop_min_reserved() {
        let re = mk(
            vec![
                Insn::EnterLoop(LoopFields { loop_id: 0, min_iters: 1, max_iters: 1, greedy: true, exit: 2 }),
                Insn::JustFail,
                Insn::JustFail,
            ],
            1,
            0,
        );
        let buf = [b'a'];
        let s = unsafe { core::str::from_utf8_unchecked(&buf) };
        let input = Utf8Input::new(s, false);
        let mut m = MatchAttempter::<Utf8Input>::new(&re, input.left_end());
        let iters: usize = kani::any();
        let e: usize = kani::any();
        kani::assume(e <= 1);
        let l0 = LoopData { iters, entry: input.left_end() + e };
        m.bts.reserve(8);
        m.s.loops[0] = l0;
        let r = m.try_at_pos(input, 0, input.left_end(), Forward::new());
        assert!(r.is_none());
        assert!(m.bts.len() == 1);
        assert!(m.s.loops[0].entry == l0.entry);
        assert!(m.s.loops[0].iters == l0.iters);
    }

    fn no_scm_loop<'a, Input: InputIndexer, Dir: Direction>(
        _this: &mut MatchAttempter<'a, Input>,
        _input: &Input,
        _dir: Dir,
        _pos: &mut Input::Position,
        _min: usize,
        _max: usize,
        _ip: IP,
        _greedy: bool,
    ) -> Option<IP> where 'a: 'a {
        panic!("Loop1CharBody unreachable in this program")
    }

    #[kani::proof]
    #[kani::unwind(4)]
    #[kani::stub(MatchAttempter::run_lookaround, no_lookaround)]
    #[kani::stub(MatchAttempter::run_scm_loop, no_scm_loop)]
    fn e3_enter_loop_min_pruned() {
        let re = mk(
            vec![
                Insn::EnterLoop(LoopFields { loop_id: 0, min_iters: 1, max_iters: 1, greedy: true, exit: 2 }),
                Insn::JustFail,
                Insn::JustFail,
            ],
            1,
            0,
        );
        let buf = [b'a'];
        let s = unsafe { core::str::from_utf8_unchecked(&buf) };
        let input = Utf8Input::new(s, false);
        let mut m = MatchAttempter::<Utf8Input>::new(&re, input.left_end());
        let iters: usize = kani::any();
        let e: usize = kani::any();
        kani::assume(e <= 1);
        let l0 = LoopData { iters, entry: input.left_end() + e };
        let mut v = Vec::with_capacity(8);
        v.push(BacktrackInsn::Exhausted);
        m.bts = v;
        m.s.loops[0] = l0;
        let r = m.try_at_pos(input, 0, input.left_end(), Forward::new());
        assert!(r.is_none());
        assert!(m.bts.len() == 1);
        assert!(m.s.loops[0].entry == l0.entry);
        assert!(m.s.loops[0].iters == l0.iters);
    }

    #[kani::proof]
    #[kani::unwind(5)]
    #[kani::stub(MatchAttempter::run_lookaround, no_lookaround)]
    #[kani::stub(MatchAttempter::run_scm_loop, no_scm_loop)]
    fn e3_enter_loop_symbolic_pruned() {
        let min: usize = kani::any();
        let max: usize = kani::any();
        kani::assume(min <= max);
        let greedy: bool = kani::any();
        let re = mk(
            vec![
                Insn::EnterLoop(LoopFields { loop_id: 0, min_iters: min, max_iters: max, greedy, exit: 3 }),
                Insn::JustFail,
                Insn::LoopAgain { begin: 0 },
                Insn::JustFail,
            ],
            1,
            0,
        );
        let buf = [b'a'];
        let s = unsafe { core::str::from_utf8_unchecked(&buf) };
        let input = Utf8Input::new(s, false);
        let mut m = MatchAttempter::<Utf8Input>::new(&re, input.left_end());
        let iters: usize = kani::any();
        let e: usize = kani::any();
        kani::assume(e <= 1);
        let l0 = LoopData { iters, entry: input.left_end() + e };
        m.bts.reserve(8);
        m.s.loops[0] = l0;
        let r = m.try_at_pos(input, 0, input.left_end(), Forward::new());
        assert!(r.is_none());
        assert!(m.bts.len() == 1);
        assert!(m.s.loops[0].iters == l0.iters);
        assert!(m.s.loops[0].entry == l0.entry);
    }

    fn no_lit<const N: usize, Input: InputIndexer, Dir: Direction>(
        _input: &Input, _dir: Dir, _pos: &mut Input::Position, _bytes: &[u8; N],
    ) -> bool { panic!("no input consumption in this program") }
    fn no_next<Input: InputIndexer, Dir: Direction>(
        _input: &Input, _dir: Dir, _pos: &mut Input::Position,
    ) -> Option<Input::Element> { panic!("no input consumption in this program") }
    fn no_next_byte<Input: InputIndexer, Dir: Direction>(
        _input: &Input, _dir: Dir, _pos: &mut Input::Position,
    ) -> Option<u8> { panic!("no input consumption in this program") }
    fn no_backref<Input: InputIndexer, Dir: Direction>(
        _input: &Input, _dir: Dir, _r: core::ops::Range<Input::Position>, _pos: &mut Input::Position,
    ) -> bool { panic!("no backref in this program") }

    #[kani::proof]
    #[kani::unwind(4)]
    #[kani::stub(MatchAttempter::run_lookaround, no_lookaround)]
    #[kani::stub(MatchAttempter::run_scm_loop, no_scm_loop)]
    #[kani::stub(cursor::try_match_lit, no_lit)]
    #[kani::stub(cursor::next, no_next)]
    #[kani::stub(cursor::next_byte, no_next_byte)]
    #[kani::stub(matchers::backref, no_backref)]
    #[kani::stub(matchers::backref_icase, no_backref)]
    fn e3_enter_loop_min_pruned2() {
        let re = mk(
            vec![
                Insn::EnterLoop(LoopFields { loop_id: 0, min_iters: 1, max_iters: 1, greedy: true, exit: 2 }),
                Insn::JustFail,
                Insn::JustFail,
            ],
            1,
            0,
        );
        let buf = [b'a'];
        let s = unsafe { core::str::from_utf8_unchecked(&buf) };
        let input = Utf8Input::new(s, false);
        let mut m = MatchAttempter::<Utf8Input>::new(&re, input.left_end());
        let iters: usize = kani::any();
        let e: usize = kani::any();
        kani::assume(e <= 1);
        let l0 = LoopData { iters, entry: input.left_end() + e };
        let mut v = Vec::with_capacity(8);
        v.push(BacktrackInsn::Exhausted);
        m.bts = v;
        m.s.loops[0] = l0;
        let r = m.try_at_pos(input, 0, input.left_end(), Forward::new());
        assert!(r.is_none());
        assert!(m.bts.len() == 1);
        assert!(m.s.loops[0].entry == l0.entry);
        assert!(m.s.loops[0].iters == l0.iters);
    }

    #[kani::proof]
    #[kani::unwind(4)]
    #[kani::stub(MatchAttempter::run_lookaround, no_lookaround)]
    #[kani::stub(MatchAttempter::run_scm_loop, no_scm_loop)]
    fn e3_begin_capture_group() {
        let re = mk(vec![Insn::BeginCaptureGroup(0), Insn::JustFail], 0, 1);
        let buf = [b'a'];
        let s = unsafe { core::str::from_utf8_unchecked(&buf) };
        let input = Utf8Input::new(s, false);
        let mut m = MatchAttempter::<Utf8Input>::new(&re, input.left_end());
        let g0 = GroupData { start: any_opt_pos(&input, 1), end: None };
        let mut v = Vec::with_capacity(8);
        v.push(BacktrackInsn::Exhausted);
        m.bts = v;
        m.s.groups[0] = g0;
        let r = m.try_at_pos(input, 0, input.left_end(), Forward::new());
        assert!(r.is_none());
        assert!(m.bts.len() == 1);
        assert!(m.s.groups[0].start == g0.start);
        assert!(m.s.groups[0].end == g0.end);
    }

    // try_backtrack stub: give up immediately (the real one is applied by the harness afterwards).
    fn give_up<'a, Input: InputIndexer, Dir: Direction>(
        _this: &mut MatchAttempter<'a, Input>,
        _input: &Input,
        _ip: &mut IP,
        _pos: &mut Input::Position,
        _dir: Dir,
    ) -> bool where 'a: 'a {
        false
    }

    #[kani::proof]
    #[kani::unwind(4)]
    #[kani::stub(MatchAttempter::run_lookaround, no_lookaround)]
    #[kani::stub(MatchAttempter::try_backtrack, give_up)]
    fn e3s_begin_capture_group() {
        let re = mk(vec![Insn::BeginCaptureGroup(0), Insn::JustFail], 0, 1);
        let buf = [b'a'];
        let s = unsafe { core::str::from_utf8_unchecked(&buf) };
        let input = Utf8Input::new(s, false);
        let mut m = MatchAttempter::<Utf8Input>::new(&re, input.left_end());
        let g0 = GroupData { start: any_opt_pos(&input, 1), end: None };
        m.s.groups[0] = g0;
        let r = m.try_at_pos(input, 0, input.left_end(), Forward::new());
        assert!(r.is_none());
        // The instruction pushed exactly undo data (no choice record): replaying must restore.
        assert!(m.bts.len() == 2);
        match m.bts[1] {
            BacktrackInsn::SetCaptureGroup { id, data } => {
                assert!(id == 0 && data.start == g0.start && data.end == g0.end);
            }
            _ => assert!(false),
        }
    }

    #[kani::proof]
    #[kani::unwind(4)]
    #[kani::stub(MatchAttempter::run_lookaround, no_lookaround)]
    #[kani::stub(MatchAttempter::try_backtrack, give_up)]
    fn e3s_enter_loop_min() {
        let re = mk(
            vec![
                Insn::EnterLoop(LoopFields { loop_id: 0, min_iters: 1, max_iters: 1, greedy: true, exit: 2 }),
                Insn::JustFail,
                Insn::JustFail,
            ],
            1,
            0,
        );
        let buf = [b'a'];
        let s = unsafe { core::str::from_utf8_unchecked(&buf) };
        let input = Utf8Input::new(s, false);
        let mut m = MatchAttempter::<Utf8Input>::new(&re, input.left_end());
        let iters: usize = kani::any();
        let e: usize = kani::any();
        kani::assume(e <= 1);
        let l0 = LoopData { iters, entry: input.left_end() + e };
        m.s.loops[0] = l0;
        let r = m.try_at_pos(input, 0, input.left_end(), Forward::new());
        assert!(r.is_none());
        assert!(m.bts.len() == 2);
        match m.bts[1] {
            BacktrackInsn::SetLoopData { id, data } => {
                assert!(id == 0);
                assert!(data.entry == l0.entry);
                assert!(data.iters == l0.iters);
            }
            _ => assert!(false),
        }
    }

    #[kani::proof]
    #[kani::unwind(4)]
    #[kani::stub(MatchAttempter::run_lookaround, no_lookaround)]
    #[kani::stub(MatchAttempter::try_backtrack, give_up)]
    #[kani::stub(MatchAttempter::run_scm_loop, no_scm_loop)]
    #[kani::stub(cursor::try_match_lit, no_lit)]
    #[kani::stub(cursor::next, no_next)]
    #[kani::stub(cursor::next_byte, no_next_byte)]
    #[kani::stub(matchers::backref, no_backref)]
    #[kani::stub(matchers::backref_icase, no_backref)]
    fn e3s_enter_loop_flat() {
        let re = mk(
            vec![
                Insn::EnterLoop(LoopFields { loop_id: 0, min_iters: 1, max_iters: 1, greedy: true, exit: 1 }),
                Insn::JustFail,
            ],
            1,
            0,
        );
        let buf = [b'a'];
        let s = unsafe { core::str::from_utf8_unchecked(&buf) };
        let input = Utf8Input::new(s, false);
        let mut m = MatchAttempter::<Utf8Input>::new(&re, input.left_end());
        let iters: usize = kani::any();
        let e: usize = kani::any();
        kani::assume(e <= 1);
        let l0 = LoopData { iters, entry: input.left_end() + e };
        m.s.loops[0] = l0;
        let r = m.try_at_pos(input, 0, input.left_end(), Forward::new());
        assert!(r.is_none());
        assert!(m.bts.len() == 2);
        match m.bts[1] {
            BacktrackInsn::SetLoopData { id, data } => {
                assert!(id == 0);
                assert!(data.entry == l0.entry);
                assert!(data.iters == l0.iters);
            }
            _ => assert!(false),
        }
    }


    #[kani::proof]
    #[kani::unwind(4)]
    #[kani::stub(MatchAttempter::run_lookaround, no_lookaround)]
    fn e3c_enter_loop_concrete_state() {
        let re = mk(
            vec![
                Insn::EnterLoop(LoopFields { loop_id: 0, min_iters: 1, max_iters: 1, greedy: true, exit: 2 }),
                Insn::JustFail,
                Insn::JustFail,
            ],
            1,
            0,
        );
        let buf = [b'a'];
        let s = unsafe { core::str::from_utf8_unchecked(&buf) };
        let input = Utf8Input::new(s, false);
        let mut m = MatchAttempter::<Utf8Input>::new(&re, input.left_end());
        let l0 = LoopData { iters: 7, entry: input.left_end() + 1 };
        m.s.loops[0] = l0;
        let r = m.try_at_pos(input, 0, input.left_end(), Forward::new());
        assert!(r.is_none());
        assert!(m.bts.len() == 1);
        assert!(m.s.loops[0].entry == l0.entry);
        assert!(m.s.loops[0].iters == l0.iters);
    }

    static mut SNAP_ITERS: usize = 0;
    static mut SNAP_BTS_LEN: usize = 0;
    static mut SNAP_CALLED: bool = false;

    fn snap_run_loop<'a, Input: InputIndexer>(
        this: &mut MatchAttempter<'a, Input>,
        loop_fields: &'a LoopFields,
        _pos: Input::Position,
        _ip: IP,
    ) -> Option<IP> where 'a: 'a {
        unsafe {
            SNAP_CALLED = true;
            SNAP_ITERS = this.s.loops[loop_fields.loop_id as usize].iters;
            SNAP_BTS_LEN = this.bts.len();
        }
        None
    }

    // Arm-level undo obligation for EnterLoop: at the call to run_loop, the loop data is
    // either untouched or covered by an undo record.
    #[kani::proof]
    #[kani::unwind(3)]
    #[kani::stub(MatchAttempter::run_lookaround, no_lookaround)]
    #[kani::stub(MatchAttempter::run_loop, snap_run_loop)]
    fn e3arm_enter_loop() {
        let min: usize = kani::any();
        let max: usize = kani::any();
        let greedy: bool = kani::any();
        let re = mk(
            vec![
                Insn::EnterLoop(LoopFields { loop_id: 0, min_iters: min, max_iters: max, greedy, exit: 1 }),
                Insn::JustFail,
            ],
            1,
            0,
        );
        let buf = [b'a'];
        let s = unsafe { core::str::from_utf8_unchecked(&buf) };
        let input = Utf8Input::new(s, false);
        let mut m = MatchAttempter::<Utf8Input>::new(&re, input.left_end());
        let iters: usize = kani::any();
        m.s.loops[0] = LoopData { iters, entry: input.left_end() };
        let r = m.try_at_pos(input, 0, input.left_end(), Forward::new());
        assert!(r.is_none());
        unsafe {
            assert!(SNAP_CALLED);
            // no undo record was pushed by the arm => the data must be untouched
            if SNAP_BTS_LEN == 1 { assert!(SNAP_ITERS == iters); }
        }
        // and after total failure the state is what it was
        assert!(m.s.loops[0].iters == iters);
    }
}
