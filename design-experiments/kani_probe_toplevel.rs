// Feasibility probe (design stage): src/verif_kani.rs of the scratch copy, declared from lib.rs under cfg(kani).

use crate::util::*;
use crate::indexing::*;
use crate::cursor::*;

#[kani::proof]
fn first_byte_matches_std() {
    let c: char = kani::any();
    let mut buf = [0u8; 4];
    let s = c.encode_utf8(&mut buf);
    let b0 = s.as_bytes()[0];
    assert!(utf8_first_byte(c as u32) == b0);
}

#[kani::proof]
fn decode_right_single_char() {
    let c: char = kani::any();
    let mut buf = [0u8; 4];
    let s: &str = c.encode_utf8(&mut buf);
    let input = Utf8Input::new(s, true);
    let mut pos = input.left_end();
    let r = input.next_right(&mut pos);
    assert!(r == Some(c));
    assert!(pos == input.right_end());
    let mut pos2 = input.right_end();
    let l = input.next_left(&mut pos2);
    assert!(l == Some(c));
    assert!(pos2 == input.left_end());
}


use crate::insn::*;
use crate::api::*;

fn prog_aqb() -> CompiledRegex {
    CompiledRegex {
        insns: vec![
            Insn::Loop1CharBody { min_iters: 0, max_iters: 1, greedy: true },
            Insn::ByteSeq1([b'a']),
            Insn::ByteSeq1([b'b']),
            Insn::Goal,
        ],
        brackets: vec![],
        start_pred: StartPredicate::Arbitrary,
        loops: 0,
        groups: 0,
        group_names: Box::new([]),
        flags: Flags::default(),
    }
}

fn no_lookaround<'a, Input: InputIndexer, Dir: Direction>(
    _this: &mut crate::classicalbacktrack::MatchAttempter<'a, Input>,
    _input: &Input,
    _ip: usize,
    _pos: Input::Position,
    _start_group: u16,
    _end_group: u16,
    _negate: bool,
) -> bool where 'a: 'a {
    panic!("lookaround unreachable in this program")
}

#[kani::proof]
#[kani::unwind(8)]
#[kani::stub(crate::classicalbacktrack::MatchAttempter::run_lookaround, no_lookaround)]
fn interp_aqb() {
    let re: Regex = prog_aqb().into();
    let b0: u8 = kani::any();
    let b1: u8 = kani::any();
    kani::assume(b0 < 128 && b1 < 128);
    let buf = [b0, b1];
    let s = unsafe { core::str::from_utf8_unchecked(&buf) };
    let m = crate::backends::find::<crate::backends::BacktrackExecutor>(&re, s, 0).next();
    if b0 == b'a' && b1 == b'b' {
        assert!(m.is_some() && m.as_ref().unwrap().range == (0..2));
    } else if b1 == b'b' {
        assert!(m.is_some() && m.as_ref().unwrap().range == (1..2));
    } else if b0 == b'b' {
        assert!(m.is_some() && m.as_ref().unwrap().range == (0..1));
    } else {
        assert!(m.is_none());
    }
}

fn prog_b() -> CompiledRegex {
    CompiledRegex {
        insns: vec![
            Insn::ByteSeq1([b'b']),
            Insn::Goal,
        ],
        brackets: vec![],
        start_pred: StartPredicate::Arbitrary,
        loops: 0,
        groups: 0,
        group_names: Box::new([]),
        flags: Flags::default(),
    }
}

#[kani::proof]
#[kani::unwind(4)]
#[kani::stub(crate::classicalbacktrack::MatchAttempter::run_lookaround, no_lookaround)]
fn interp_b() {
    let re: Regex = prog_b().into();
    let b0: u8 = kani::any();
    kani::assume(b0 < 128);
    let buf = [b0];
    let s = unsafe { core::str::from_utf8_unchecked(&buf) };
    let m = crate::backends::find::<crate::backends::BacktrackExecutor>(&re, s, 0).next();
    assert!(m.is_some() == (b0 == b'b'));
}
