use vstd::prelude::*;
verus! {

pub enum Bt {
    Exhausted,
    SetPosition { ip: usize, pos: usize },
    SetLoop { id: u16, data: u64 },
    Greedy { continuation: usize, min: usize, max: usize },
}

pub struct M {
    pub bts: Vec<Bt>,
    pub loops: Vec<u64>,
}

impl M {
    #[verifier::exec_allows_no_decreases_clause]
    fn try_backtrack(&mut self, ip: &mut usize, pos: &mut usize) -> (r: bool)
        requires old(self).bts@.len() >= 1,
    {
        loop
            invariant self.bts@.len() >= 1,
        {
            let bt = match self.bts.last_mut() {
                Some(bt) => bt,
                None => { assert(false); loop {} }
            };
            match bt {
                Bt::Exhausted => return false,
                Bt::SetPosition { ip: saved_ip, pos: saved_pos } => {
                    *ip = *saved_ip;
                    *pos = *saved_pos;
                    self.bts.pop();
                    return true;
                }
                Bt::SetLoop { id, data } => {
                    if (*id as usize) < self.loops.len() {
                        self.loops[*id as usize] = *data;
                    }
                    self.bts.pop();
                }
                Bt::Greedy { continuation, min, max } => {
                    if *max == *min {
                        self.bts.pop();
                        continue;
                    }
                    if *max > 0 { *max = *max - 1; }
                    *pos = *max;
                    *ip = *continuation;
                    return true;
                }
            }
        }
    }
}

} // verus!
fn main() {}
