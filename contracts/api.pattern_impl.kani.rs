// Contracts for the std Pattern/Searcher implementation (src/api.rs, nested module `pattern_impl`, feature `pattern`).
// Injected as a child of `mod pattern_impl` so that the private cursor fields of RegexSearcher can state the inductive step.
#[cfg(kani)]
mod __verif {
    use super::*;
    use crate::classicalbacktrack::__verif::{init_oracle, mk_owned, next_boundary, ORACLE};
    use crate::classicalbacktrack::{BacktrackExecutor, MatchAttempter};

    fn regex_goal() -> &'static Regex {
        let cr = mk_owned(vec![crate::insn::Insn::Goal], 0, 0, vec![]);
        Box::leak(Box::new(Regex::from(cr)))
    }

    /// first match at or after boundary `cur` according to the oracle table
    fn first_match(cur: usize, len: usize, bnd: &[bool; 5]) -> Option<(usize, usize)> {
        let mut p = cur;
        loop {
            if let Some(e) = unsafe { ORACLE[p] } { return Some((p, e)); }
            match next_boundary(p, len, bnd) { Some(q) => p = q, None => return None }
        }
    }

    // @obligation name=j6_searcher_next_step props=C20 fn=api::pattern_impl::RegexSearcher::next kind=bounded bound="every case except a zero-width match before the end of input (that case is obligation j6_searcher_next_step_empty_match); haystack \"a\u{e9}b\" (4 bytes, one 2-byte char); ONE call of next() from every cursor state (inductive step); matcher = arbitrary deterministic oracle" features=pattern min_checks=300 w=3 timeout=1500 ignore_free_model=1
    // Inductive step of the forward Searcher: from any state whose cursor c is a char boundary, next() returns a step that
    // STARTS at c and ends on a char boundary, and afterwards the cursor equals the end of that step (so consecutive steps
    // are adjacent and tile the haystack); the step is Match(s,e) exactly when the regex's next match starts at c, Reject up
    // to the next match (or to the end) otherwise; Done only when the cursor is at the end; once done, always Done.
    #[cfg(feature = "pattern")]
    #[kani::proof]
    #[kani::unwind(7)]
    #[kani::stub(MatchAttempter::try_at_pos, crate::classicalbacktrack::__verif::oracle_try_at_pos)]
    #[kani::stub(BacktrackExecutor::successful_match, crate::classicalbacktrack::__verif::sm_stub)]
    fn j6_searcher_next_step() {
        j6_body(false);
    }

    // @obligation name=j6_searcher_next_step_empty_match props=C20 fn=api::pattern_impl::RegexSearcher::next kind=bounded bound="the case of a zero-width match at the cursor before the end of input; haystack \"a\u{e9}b\"; ONE call of next(); matcher = oracle" features=pattern finding=F7 min_checks=300 w=3 timeout=1500 ignore_free_model=1
    // After a zero-width Match(p,p) the next step must start at p (std's Searcher contract: steps are adjacent and cover the
    // haystack; std's own empty-needle searcher emits Match(p,p), Reject(p,q), Match(q,q), ...).
    #[cfg(feature = "pattern")]
    #[kani::proof]
    #[kani::unwind(7)]
    #[kani::stub(MatchAttempter::try_at_pos, crate::classicalbacktrack::__verif::oracle_try_at_pos)]
    #[kani::stub(BacktrackExecutor::successful_match, crate::classicalbacktrack::__verif::sm_stub)]
    fn j6_searcher_next_step_empty_match() {
        j6_body(true);
    }

    fn j6_body(empty_match_case: bool) {
        let re = regex_goal();
        let text: &'static str = "a\u{e9}b";
        let (len, bnd) = (4usize, [true, true, false, true, true]);
        init_oracle(len, &bnd);
        let mut s = RegexSearcher::new(re, text);
        let cur: usize = kani::any();
        kani::assume(cur <= len && bnd[cur]);
        s.current_pos = cur;
        let was_done: bool = kani::any();
        s.done = was_done;
        // known finding F7 lives in exactly one case: a zero-width match at the cursor that is not at the end of input
        let fm = first_match(cur, len, &bnd);
        let is_empty_case = !was_done && matches!(fm, Some((ms, me)) if ms == cur && me == ms && me < len);
        kani::assume(is_empty_case == empty_match_case);
        let step = s.next();
        if was_done {
            assert!(matches!(step, SearchStep::Done));
        } else {
            match fm {
                None => {
                    if cur < len {
                        assert!(matches!(step, SearchStep::Reject(a, b) if a == cur && b == len));
                        assert!(s.current_pos == len);
                    } else {
                        assert!(matches!(step, SearchStep::Done));
                    }
                    assert!(s.done);
                }
                Some((ms, me)) => {
                    if ms > cur {
                        assert!(matches!(step, SearchStep::Reject(a, b) if a == cur && b == ms), "gap before the next match is rejected");
                        assert!(s.current_pos == ms, "cursor = end of the emitted step");
                    } else {
                        assert!(matches!(step, SearchStep::Match(a, b) if a == ms && b == me), "the regex's next match is reported");
                        assert!(s.done || s.current_pos == me, "F7: after a zero-width Match(p,p) the searcher skips to the next character without emitting Reject(p, next): the steps do not tile the haystack");
                    }
                }
            }
        }
        kani::cover!(cur == 1);
    }

    // @obligation name=j6_find_last_match_before props=C20 fn=api::pattern_impl::RegexSearcher::find_last_match_before kind=bounded bound="haystack \"a\u{e9}b\"; EVERY match sequence of up to 3 matches the iterator contract allows (symbolic ranges); every boundary pos; the search driver is replaced by its contract (Verus unit cv_drivers)" features=pattern min_checks=300 w=3 timeout=1500 ignore_free_model=1
    // find_last_match_before(pos) returns the LAST match of the regex's match sequence that ends at or before pos, None when
    // there is none - the contract the Verus unit cv_searcher_back assumes for it.
    #[cfg(feature = "pattern")]
    #[kani::proof]
    #[kani::unwind(6)]
    #[kani::stub(BacktrackExecutor::next_match_with_prefix_search, crate::api::__verif::scripted_search)]
    fn j6_find_last_match_before() {
        let re = regex_goal();
        let text: &'static str = "a\u{e9}b";
        let (len, bnd) = (4usize, [true, true, false, true, true]);
        let n = crate::api::__verif::any_script(len, &bnd);
        let s = RegexSearcher::new(re, text);
        let pos: usize = kani::any();
        kani::assume(pos <= len && bnd[pos]);
        let got = s.find_last_match_before(pos);
        let gr = got.as_ref().map(|m| (m.start(), m.end()));
        core::mem::forget(got);
        let mut expect: Option<(usize, usize)> = None;
        let mut i = 0;
        while i < n {
            let (a, b) = unsafe { crate::api::__verif::SCRIPT[i] };
            if b <= pos { expect = Some((a, b)); }
            i += 1;
        }
        assert!(gr == expect, "the last match that ends at or before pos");
        kani::cover!(n == 3 && expect.is_some() && expect != Some(unsafe { crate::api::__verif::SCRIPT[2] }), "a later match ends after pos");
        kani::cover!(n > 0 && expect.is_none());
    }

    fn j6_back_body(empty_match_case: bool) {
        let re = regex_goal();
        let text: &'static str = "a\u{e9}b";
        let (len, bnd) = (4usize, [true, true, false, true, true]);
        let n = crate::api::__verif::any_script(len, &bnd);
        let mut s = RegexSearcher::new(re, text);
        let cur: usize = kani::any();
        kani::assume(cur <= len && bnd[cur]);
        s.reverse_pos = cur;
        let was_done: bool = kani::any();
        s.reverse_done = was_done;
        let mut lm: Option<(usize, usize)> = None;
        let mut i = 0;
        while i < n {
            let (a, b) = unsafe { crate::api::__verif::SCRIPT[i] };
            if b <= cur { lm = Some((a, b)); }
            i += 1;
        }
        // known finding F7b lives in exactly one case: a zero-width match ending at the cursor, not at offset 0
        let is_empty_case = !was_done && matches!(lm, Some((ms, me)) if me == cur && ms == me && ms > 0);
        kani::assume(is_empty_case == empty_match_case);
        let step = s.next_back();
        if was_done {
            assert!(matches!(step, SearchStep::Done));
        } else {
            match lm {
                None => {
                    if cur > 0 {
                        assert!(matches!(step, SearchStep::Reject(a, b) if a == 0 && b == cur));
                        assert!(s.reverse_pos == 0);
                    } else {
                        assert!(matches!(step, SearchStep::Done));
                    }
                    assert!(s.reverse_done);
                }
                Some((ms, me)) => {
                    if me < cur {
                        assert!(matches!(step, SearchStep::Reject(a, b) if a == me && b == cur), "gap after the last match is rejected");
                        assert!(s.reverse_pos == me, "cursor = start of the emitted step");
                    } else {
                        assert!(matches!(step, SearchStep::Match(a, b) if a == ms && b == me), "the last match ending at the cursor is reported");
                        assert!(s.reverse_done || s.reverse_pos == ms, "F7b: after a zero-width Match(p,p) the reverse searcher skips to the previous character without emitting Reject(prev, p): the steps do not tile the haystack");
                    }
                }
            }
        }
        kani::cover!(cur == 3);
    }

    // @obligation name=j6_searcher_next_back_step props=C20 fn=api::pattern_impl::RegexSearcher::next_back,api::pattern_impl::RegexSearcher::find_last_match_before kind=bounded bound="every case except a zero-width match ending at the cursor after offset 0 (that case is j6_searcher_next_back_step_empty_match); haystack \"a\u{e9}b\"; ONE call of next_back() from every reverse cursor state; EVERY match sequence of up to 3 matches (symbolic); the search driver is replaced by its contract (cv_drivers)" features=pattern min_checks=300 w=3 timeout=1500 ignore_free_model=1
    // Inductive step of the ReverseSearcher with the real find_last_match_before: from any state whose reverse cursor c is a
    // char boundary, next_back() returns a step that ENDS at c, and afterwards the cursor equals the start of that step; the
    // step is Match(s,e) exactly when the last match ending at or before c ends at c, Reject back to that match's end (or to 0)
    // otherwise; Done only at offset 0; once done, always Done.
    #[cfg(feature = "pattern")]
    #[kani::proof]
    #[kani::unwind(6)]
    #[kani::stub(BacktrackExecutor::next_match_with_prefix_search, crate::api::__verif::scripted_search)]
    fn j6_searcher_next_back_step() {
        j6_back_body(false);
    }

    // @obligation name=j6_searcher_next_back_step_empty_match props=C20 fn=api::pattern_impl::RegexSearcher::next_back kind=bounded bound="the case of a zero-width match ending at the cursor after offset 0; haystack \"a\u{e9}b\"; ONE call of next_back(); every match sequence of up to 3 matches" features=pattern finding=F7b min_checks=300 w=3 timeout=1500 ignore_free_model=1
    // After a zero-width Match(p,p) the next reverse step must END at p (steps adjacent, covering the haystack).
    #[cfg(feature = "pattern")]
    #[kani::proof]
    #[kani::unwind(6)]
    #[kani::stub(BacktrackExecutor::next_match_with_prefix_search, crate::api::__verif::scripted_search)]
    fn j6_searcher_next_back_step_empty_match() {
        j6_back_body(true);
    }
}
