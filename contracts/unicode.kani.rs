// Contracts for src/unicode.rs (case folding / legacy upper-casing). Oracle for the legacy rule: std's Unicode tables
// (char::to_uppercase), combined as ECMA-262 22.2.2.7.3 Canonicalize prescribes when neither u nor v is present.
#[cfg(kani)]
pub(crate) mod __verif {
    use super::*;

    /// ES Canonicalize(ch) without u/v: toUppercase(ch); if the result is not a single code unit return ch; if ch >= 128
    /// and the result < 128 return ch; else the result.
    fn es_legacy_canonicalize(c: char) -> u32 {
        let mut it = c.to_uppercase();
        if it.len() != 1 {
            return c as u32;
        }
        let u = it.next().unwrap() as u32;
        if (c as u32) >= 128 && u < 128 {
            return c as u32;
        }
        u
    }

    /// The code points on which the generated TO_UPPERCASE table is known to deviate (known finding F6):
    /// U+0131 and U+017F map to ASCII; 27 Greek code points whose full upper-casing has more than one character.
    fn f6_ascii_rule(cp: u32) -> bool {
        cp == 0x131 || cp == 0x17F
    }
    fn f6_multichar_rule(cp: u32) -> bool {
        (0x1F80..=0x1F87).contains(&cp) || (0x1F90..=0x1F97).contains(&cp) || (0x1FA0..=0x1FA7).contains(&cp)
            || cp == 0x1FB3 || cp == 0x1FC3 || cp == 0x1FF3
    }

    // @obligation name=d1_fold_tables_sorted props=C10,C06:t fn=unicodetables::FOLDS,unicodetables::TO_UPPERCASE kind=complete domain="every entry of both tables (concrete evaluation)" min_checks=10 timeout=900 fs=64
    // FOLDS and TO_UPPERCASE are sorted by first code point and disjoint (the precondition of the binary searches in fold /
    // uppercase), and every entry's delta maps both ends of its range into 0..=0x10FFFF.
    #[kani::proof]
    #[kani::unwind(210)]
    fn d1_fold_tables_sorted() {
        let mut i = 0;
        while i < FOLDS.len() {
            let fr = &FOLDS[i];
            assert!(fr.first() <= fr.last());
            if i + 1 < FOLDS.len() { assert!(fr.last() < FOLDS[i + 1].first()); }
            let a = (fr.first() as i64) + (fr.delta() as i64);
            let b = (fr.last() as i64) + (fr.delta() as i64);
            assert!(0 <= a && b <= 0x10FFFF);
            i += 1;
        }
        let mut i = 0;
        while i < TO_UPPERCASE.len() {
            let fr = &TO_UPPERCASE[i];
            assert!(fr.first() <= fr.last());
            if i + 1 < TO_UPPERCASE.len() { assert!(fr.last() < TO_UPPERCASE[i + 1].first()); }
            let a = (fr.first() as i64) + (fr.delta() as i64);
            let b = (fr.last() as i64) + (fr.delta() as i64);
            assert!(0 <= a && b <= 0x10FFFF);
            i += 1;
        }
        kani::cover!(true);
    }

    // @obligation name=d2_fold_idempotent props=C10,C06,C15 fn=unicode::fold,unicode::FoldRange::apply,unicode::FoldRange::add_delta kind=complete domain="every code point 0..=0x10FFFF" features=default features_thorough=prohibit-unsafe min_checks=50 timeout=900 fs=64
    // fold(c) is in 0..=0x10FFFF and fold(fold(c)) == fold(c) (canonical forms are fixed points, so "canon(c) == canon(d)" is
    // an equivalence); the unchecked table access stays in bounds; ASCII: fold(A-Z) = a-z, other ASCII unchanged.
    #[kani::proof]
    #[kani::unwind(12)]
    fn d2_fold_idempotent() {
        let c: u32 = kani::any();
        kani::assume(c <= 0x10FFFF);
        let f = fold(c);
        assert!(f <= 0x10FFFF);
        assert!(fold(f) == f);
        if c < 128 {
            assert!(f == if (0x41..=0x5A).contains(&c) { c + 0x20 } else { c });
        }
        kani::cover!(f != c && c > 0x10000);
    }

    // @obligation name=d2_uppercase_idempotent props=C10,C06,C15 fn=unicode::uppercase,unicode::fold_code_point kind=complete domain="every code point 0..=0x10FFFF" features=default features_thorough=prohibit-unsafe min_checks=50 timeout=900 fs=64
    // uppercase(c) is in range and idempotent; fold_code_point dispatches on the unicode flag; ASCII: a-z -> A-Z only.
    #[kani::proof]
    #[kani::unwind(12)]
    fn d2_uppercase_idempotent() {
        let c: u32 = kani::any();
        kani::assume(c <= 0x10FFFF);
        let u = uppercase(c);
        assert!(u <= 0x10FFFF);
        assert!(uppercase(u) == u);
        assert!(fold_code_point(c, false) == u);
        assert!(fold_code_point(c, true) == fold(c));
        if c < 128 {
            assert!(u == if (0x61..=0x7A).contains(&c) { c - 0x20 } else { c });
        }
        kani::cover!(u != c && c > 0x10000);
    }

    // @obligation name=d3_uppercase_es_legacy props=C10 fn=unicode::uppercase kind=complete domain="every char except the 29 code points of known finding F6" min_checks=50 timeout=1500 w=2 fs=64
    // Legacy (no u/v) canonicalisation: uppercase(c) equals the ES rule computed from std's Unicode data (toUppercase unless
    // it is multi-character or maps a non-ASCII character to ASCII), for every char outside the known finding's witnesses.
    #[kani::proof]
    #[kani::unwind(16)]
    fn d3_uppercase_es_legacy() {
        let c: char = kani::any();
        kani::assume(!f6_ascii_rule(c as u32) && !f6_multichar_rule(c as u32));
        assert!(uppercase(c as u32) == es_legacy_canonicalize(c), "uppercase(c) = ES legacy Canonicalize(c)");
        kani::cover!(uppercase(c as u32) != c as u32 && c as u32 > 0x400);
    }

    // @obligation name=d3_uppercase_f6_ascii_rule props=C10 fn=unicode::uppercase kind=complete domain="U+0131, U+017F" finding=F6a min_checks=10 timeout=900 fs=64
    // ES: a non-ASCII character must not canonicalise to an ASCII one (so /s/i must not match U+017F, /i/i not U+0131).
    #[kani::proof]
    #[kani::unwind(16)]
    fn d3_uppercase_f6_ascii_rule() {
        let c: char = kani::any();
        kani::assume(f6_ascii_rule(c as u32));
        assert!(uppercase(c as u32) == es_legacy_canonicalize(c), "F6a: legacy canonicalisation maps non-ASCII to ASCII (U+0131, U+017F)");
        kani::cover!(true);
    }

    // @obligation name=d3_uppercase_f6_multichar_rule props=C10 fn=unicode::uppercase kind=complete domain="27 Greek code points with a multi-character full upper-casing" finding=F6b min_checks=10 timeout=900 fs=64
    // ES: a character whose toUppercase is more than one character canonicalises to itself.
    #[kani::proof]
    #[kani::unwind(16)]
    fn d3_uppercase_f6_multichar_rule() {
        let c: char = kani::any();
        kani::assume(f6_multichar_rule(c as u32));
        assert!(uppercase(c as u32) == es_legacy_canonicalize(c), "F6b: legacy canonicalisation uses the simple mapping where toUppercase is multi-character (U+1F80.., U+1FB3, U+1FC3, U+1FF3)");
        kani::cover!(true);
    }

    // @obligation name=d6_expand_code_point_no_icase props=C10,C03:t fn=unicode::expand_code_point kind=complete domain="every u32, both modes" min_checks=10 w=2 timeout=900
    // Without the i flag a literal expands to itself only.
    #[kani::proof]
    #[kani::unwind(4)]
    fn d6_expand_code_point_no_icase() {
        let c: u32 = kani::any();
        let u: bool = kani::any();
        let v = expand_code_point(c, false, u);
        assert!(v.len() == 1 && v[0] == c);
        kani::cover!(true);
    }
}
