// Contracts for src/indexing.rs (decoders and position arithmetic of the input indexers).
#[cfg(kani)]
mod __verif {
    use super::*;
    use crate::cursor::{Backward, Forward};

    /// buf = enc(c1) ++ enc(c2); returns (buf, n1, n1+n2)
    fn two_chars(c1: char, c2: char) -> ([u8; 8], usize, usize) {
        let mut buf = [0u8; 8];
        let n1 = c1.encode_utf8(&mut buf[..4]).len();
        let n2 = c2.encode_utf8(&mut buf[n1..n1 + 4]).len();
        (buf, n1, n1 + n2)
    }

    // @obligation name=a2_utf8_seq_len props=C01,C06 fn=indexing::utf8_seq_len,indexing::is_seq_start kind=complete domain="every char; every byte of every char" min_checks=50
    // utf8_seq_len(lead byte of c) == c.len_utf8(); is_seq_start(b) holds exactly for the lead byte of an encoding.
    #[kani::proof]
    fn a2_utf8_seq_len() {
        let c: char = kani::any();
        let mut b = [0u8; 4];
        let n = c.encode_utf8(&mut b).len();
        assert!(utf8_seq_len(b[0]) == n);
        let i: usize = kani::any();
        kani::assume(i < n);
        assert!(is_seq_start(b[i]) == (i == 0));
        kani::cover!(n == 4 && i == 3);
    }

    // @obligation name=a3_utf8_next_right props=C01,C06,C15 fn=indexing::Utf8Input::next_right,indexing::Utf8Input::next_right_pos,indexing::Utf8Input::peek_right kind=complete domain="every pair of chars c1 c2, every char boundary of enc(c1)++enc(c2)" features=default features_thorough=index-positions;prohibit-unsafe;index-positions,prohibit-unsafe min_checks=200 w=2 timeout=600
    // next_right at a boundary returns the char to the right and lands on the next boundary (None at the right end, position unchanged);
    // next_right_pos agrees; peek_right does not move. All pointer reads stay inside the haystack (CBMC pointer checks on RefPosition).
    #[kani::proof]
    fn a3_utf8_next_right() {
        let c1: char = kani::any();
        let c2: char = kani::any();
        let (buf, n1, n) = two_chars(c1, c2);
        let s = unsafe { core::str::from_utf8_unchecked(&buf[..n]) };
        let input = Utf8Input::new(s, kani::any());
        let which: u8 = kani::any();
        kani::assume(which < 3);
        let off = match which { 0 => 0, 1 => n1, _ => n };
        let start = input.left_end() + off;
        let mut p = start;
        let r = input.next_right(&mut p);
        let np = input.next_right_pos(start);
        let pk = input.peek_right(start);
        assert!(pk == r);
        match which {
            0 => { assert!(r == Some(c1)); assert!(input.pos_to_offset(p) == n1); assert!(np == Some(p)); }
            1 => { assert!(r == Some(c2)); assert!(input.pos_to_offset(p) == n); assert!(np == Some(p)); }
            _ => { assert!(r.is_none()); assert!(p == start); assert!(np.is_none()); }
        }
        kani::cover!(which == 1 && n1 == 4 && n == 8);
        kani::cover!(which == 0 && n1 == 3);
    }

    // @obligation name=a3_utf8_next_left props=C01,C06,C15 fn=indexing::Utf8Input::next_left,indexing::Utf8Input::next_left_pos,indexing::Utf8Input::peek_left kind=complete domain="every pair of chars c1 c2, every char boundary of enc(c1)++enc(c2)" features=default features_thorough=index-positions;prohibit-unsafe;index-positions,prohibit-unsafe min_checks=200 w=2 timeout=600
    // next_left at a boundary returns the char to the left and lands on the previous boundary (None at the left end);
    // next_left_pos agrees; peek_left does not move; no read outside the haystack.
    #[kani::proof]
    fn a3_utf8_next_left() {
        let c1: char = kani::any();
        let c2: char = kani::any();
        let (buf, n1, n) = two_chars(c1, c2);
        let s = unsafe { core::str::from_utf8_unchecked(&buf[..n]) };
        let input = Utf8Input::new(s, kani::any());
        let which: u8 = kani::any();
        kani::assume(which < 3);
        let off = match which { 0 => 0, 1 => n1, _ => n };
        let start = input.left_end() + off;
        let mut p = start;
        let r = input.next_left(&mut p);
        let np = input.next_left_pos(start);
        let pk = input.peek_left(start);
        assert!(pk == r);
        match which {
            0 => { assert!(r.is_none()); assert!(p == start); assert!(np.is_none()); }
            1 => { assert!(r == Some(c1)); assert!(input.pos_to_offset(p) == 0); assert!(np == Some(p)); }
            _ => { assert!(r == Some(c2)); assert!(input.pos_to_offset(p) == n1); assert!(np == Some(p)); }
        }
        kani::cover!(which == 2 && n1 == 4 && n == 8);
        kani::cover!(which == 1 && n1 == 3);
    }

    // @obligation name=a4_utf8_moves_and_bytes props=C06,C09:t,C15 fn=indexing::Utf8Input::try_move_right,indexing::Utf8Input::try_move_left,indexing::Utf8Input::pos_to_offset,indexing::Utf8Input::peek_byte_right,indexing::Utf8Input::peek_byte_left kind=bounded bound="ASCII haystack of length 0..=4 (contents symbolic), every offset, every amount" features=default features_thorough=index-positions;prohibit-unsafe min_checks=100
    // try_move_right(p, k) = Some(p+k) iff p+k <= len, try_move_left(p,k) = Some(p-k) iff k <= p (no overflow for any usize k);
    // pos_to_offset is the inverse of left_end()+off; peek_byte_* read the adjacent byte or None at the ends.
    #[kani::proof]
    fn a4_utf8_moves_and_bytes() {
        let b: [u8; 4] = kani::any();
        let len: usize = kani::any();
        kani::assume(len <= 4);
        kani::assume(b[0] < 128 && b[1] < 128 && b[2] < 128 && b[3] < 128);
        let s = unsafe { core::str::from_utf8_unchecked(&b[..len]) };
        let input = Utf8Input::new(s, false);
        let off: usize = kani::any();
        kani::assume(off <= len);
        let p = input.left_end() + off;
        assert!(input.pos_to_offset(p) == off);
        assert!(input.pos_to_offset(input.right_end()) == len);
        let k: usize = kani::any();
        match input.try_move_right(p, k) {
            Some(q) => { assert!(k <= len - off); assert!(input.pos_to_offset(q) == off + k); }
            None => assert!(k > len - off),
        }
        match input.try_move_left(p, k) {
            Some(q) => { assert!(k <= off); assert!(input.pos_to_offset(q) == off - k); }
            None => assert!(k > off),
        }
        assert!(input.peek_byte_right(p) == if off < len { Some(b[off]) } else { None });
        assert!(input.peek_byte_left(p) == if off > 0 { Some(b[off - 1]) } else { None });
        kani::cover!(len == 4 && off == 2);
        kani::cover!(len == 0);
    }

    // @obligation name=a4_utf8_match_bytes props=C01,C06,C15 fn=indexing::Utf8Input::match_bytes,cursor::try_match_lit kind=bounded bound="haystack of 4 symbolic bytes, literal of 2 symbolic bytes, every offset, both directions" features=default features_thorough=index-positions;prohibit-unsafe min_checks=100
    // match_bytes::<2> forward: true iff the 2 bytes at pos equal the literal, then pos advances by 2; backward: the 2 bytes before pos, pos retreats by 2;
    // false when fewer than 2 bytes remain. Never reads outside the haystack.
    #[kani::proof]
    fn a4_utf8_match_bytes() {
        let b: [u8; 4] = kani::any();
        kani::assume(b[0] < 128 && b[1] < 128 && b[2] < 128 && b[3] < 128);
        let s = unsafe { core::str::from_utf8_unchecked(&b) };
        let input = Utf8Input::new(s, false);
        let lit: [u8; 2] = kani::any();
        let off: usize = kani::any();
        kani::assume(off <= 4);
        let mut p = input.left_end() + off;
        let fwd = crate::cursor::try_match_lit(&input, Forward::new(), &mut p, &lit);
        let exp_f = off + 2 <= 4 && b[off] == lit[0] && b[off + 1] == lit[1];
        assert!(fwd == exp_f);
        if fwd { assert!(input.pos_to_offset(p) == off + 2); }
        let mut q = input.left_end() + off;
        let bwd = input.match_bytes(Backward::new(), &mut q, &lit);
        let exp_b = off >= 2 && b[off - 2] == lit[0] && b[off - 1] == lit[1];
        assert!(bwd == exp_b);
        if bwd { assert!(input.pos_to_offset(q) == off - 2); }
        kani::cover!(fwd && off == 2);
        kani::cover!(bwd && off == 4);
    }

    // @obligation name=a4_utf8_subrange_eq props=C01,C06,C15 fn=indexing::Utf8Input::subrange_eq,matchers::backref kind=bounded bound="haystack of 5 symbolic ASCII bytes, every referenced range, every position, both directions" features=default features_thorough=index-positions;prohibit-unsafe min_checks=100 w=2
    // subrange_eq (the body of a case-sensitive backreference): forward, true iff the len bytes at pos equal the referenced range and
    // then pos advances by len; backward, the len bytes before pos; false when not enough text. An empty range always matches without moving.
    #[kani::proof]
    #[kani::unwind(7)]
    fn a4_utf8_subrange_eq() {
        let b: [u8; 5] = kani::any();
        kani::assume(b[0] < 128 && b[1] < 128 && b[2] < 128 && b[3] < 128 && b[4] < 128);
        let s = unsafe { core::str::from_utf8_unchecked(&b) };
        let input = Utf8Input::new(s, false);
        let rs: usize = kani::any();
        let re: usize = kani::any();
        kani::assume(rs <= re && re <= 5);
        let len = re - rs;
        let range = (input.left_end() + rs)..(input.left_end() + re);
        let off: usize = kani::any();
        kani::assume(off <= 5);
        let fwd: bool = kani::any();
        let mut p = input.left_end() + off;
        let r = if fwd {
            crate::matchers::backref(&input, Forward::new(), range, &mut p)
        } else {
            crate::matchers::backref(&input, Backward::new(), range, &mut p)
        };
        let fits = if fwd { off + len <= 5 } else { off >= len };
        let base = if fwd { off } else { off.wrapping_sub(len) };
        let mut eq = fits;
        let mut i = 0;
        while i < len {
            if fits && b[base + i] != b[rs + i] { eq = false; }
            i += 1;
        }
        assert!(r == eq);
        if r {
            assert!(input.pos_to_offset(p) == if fwd { off + len } else { off - len });
        }
        kani::cover!(r && len == 2 && fwd);
        kani::cover!(r && len == 2 && !fwd);
        kani::cover!(!r && fits);
    }

    // @obligation name=a4_utf8_find_bytes props=C04,C06,C09:t fn=indexing::Utf8Input::find_bytes,indexing::Utf8Input::slice kind=bounded bound="haystack of 0..=4 symbolic ASCII bytes, every start offset, symbolic ByteBitmap" min_checks=100 w=2
    // find_bytes(pos, search) = pos + (least index >= 0 in haystack[pos..] admitted by the search), None iff none.
    #[kani::proof]
    #[kani::unwind(6)]
    fn a4_utf8_find_bytes() {
        let b: [u8; 4] = kani::any();
        let len: usize = kani::any();
        kani::assume(len <= 4);
        kani::assume(b[0] < 128 && b[1] < 128 && b[2] < 128 && b[3] < 128);
        let s = unsafe { core::str::from_utf8_unchecked(&b[..len]) };
        let input = Utf8Input::new(s, false);
        let bits: [u8; 2] = kani::any();
        let bm = crate::bytesearch::ByteBitmap::new(&bits);
        let off: usize = kani::any();
        kani::assume(off <= len);
        let r = input.find_bytes(input.left_end() + off, &bm);
        let mut exp = None;
        let mut i = len;
        while i > off {
            i -= 1;
            if b[i] == bits[0] || b[i] == bits[1] { exp = Some(i); }
        }
        assert!(r.map(|q| input.pos_to_offset(q)) == exp);
        let e = input.find_bytes(input.left_end() + off, &crate::bytesearch::EmptyString {});
        assert!(e.map(|q| input.pos_to_offset(q)) == Some(off));
        kani::cover!(exp == Some(3) && off == 1);
        kani::cover!(exp.is_none() && len == 4);
    }

    // @obligation name=a5_ascii_refines_utf8 props=C13,C06,C02:t fn=indexing::AsciiInput::next_right,indexing::AsciiInput::next_left,indexing::AsciiInput::next_right_pos,indexing::AsciiInput::next_left_pos,indexing::AsciiInput::peek_byte_right,indexing::AsciiInput::peek_byte_left,indexing::AsciiInput::try_move_right,indexing::AsciiInput::try_move_left kind=bounded bound="ASCII haystack of length 0..=3 (contents symbolic), every offset" features=default features_thorough=index-positions;prohibit-unsafe min_checks=200 w=2
    // On an all-ASCII haystack every AsciiInput operation returns what the Utf8Input operation returns (elements compared as code points,
    // positions as offsets): next_right/left, next_*_pos, peek_*, peek_byte_*, try_move_*, left/right_end.
    #[kani::proof]
    fn a5_ascii_refines_utf8() {
        let b: [u8; 3] = kani::any();
        let len: usize = kani::any();
        kani::assume(len <= 3);
        kani::assume(b[0] < 128 && b[1] < 128 && b[2] < 128);
        let s = unsafe { core::str::from_utf8_unchecked(&b[..len]) };
        let u = Utf8Input::new(s, false);
        let a = AsciiInput::new(s, false);
        let off: usize = kani::any();
        kani::assume(off <= len);
        let pu = u.left_end() + off;
        let pa = a.left_end() + off;
        assert!(a.pos_to_offset(a.right_end()) == u.pos_to_offset(u.right_end()));
        let (mut qu, mut qa) = (pu, pa);
        assert!(u.next_right(&mut qu).map(|c| c as u32) == a.next_right(&mut qa).map(|c| c as u32));
        assert!(u.pos_to_offset(qu) == a.pos_to_offset(qa));
        let (mut qu, mut qa) = (pu, pa);
        assert!(u.next_left(&mut qu).map(|c| c as u32) == a.next_left(&mut qa).map(|c| c as u32));
        assert!(u.pos_to_offset(qu) == a.pos_to_offset(qa));
        assert!(u.next_right_pos(pu).map(|q| u.pos_to_offset(q)) == a.next_right_pos(pa).map(|q| a.pos_to_offset(q)));
        assert!(u.next_left_pos(pu).map(|q| u.pos_to_offset(q)) == a.next_left_pos(pa).map(|q| a.pos_to_offset(q)));
        assert!(u.peek_right(pu).map(|c| c as u32) == a.peek_right(pa).map(|c| c as u32));
        assert!(u.peek_left(pu).map(|c| c as u32) == a.peek_left(pa).map(|c| c as u32));
        assert!(u.peek_byte_right(pu) == a.peek_byte_right(pa));
        assert!(u.peek_byte_left(pu) == a.peek_byte_left(pa));
        let k: usize = kani::any();
        assert!(u.try_move_right(pu, k).map(|q| u.pos_to_offset(q)) == a.try_move_right(pa, k).map(|q| a.pos_to_offset(q)));
        assert!(u.try_move_left(pu, k).map(|q| u.pos_to_offset(q)) == a.try_move_left(pa, k).map(|q| a.pos_to_offset(q)));
        kani::cover!(len == 3 && off == 1);
        kani::cover!(len == 0);
    }

    // @obligation name=a5_ascii_bytes_refine_utf8 props=C13,C06:t fn=indexing::AsciiInput::match_bytes,indexing::AsciiInput::subrange_eq,indexing::AsciiInput::find_bytes kind=bounded bound="ASCII haystack of 4 symbolic bytes, 2-byte literal, every range/offset, both directions" min_checks=200 w=2
    // match_bytes, subrange_eq and find_bytes of AsciiInput agree with Utf8Input on an all-ASCII haystack (result and final offset).
    #[kani::proof]
    #[kani::unwind(6)]
    fn a5_ascii_bytes_refine_utf8() {
        let b: [u8; 4] = kani::any();
        kani::assume(b[0] < 128 && b[1] < 128 && b[2] < 128 && b[3] < 128);
        let s = unsafe { core::str::from_utf8_unchecked(&b) };
        let u = Utf8Input::new(s, false);
        let a = AsciiInput::new(s, false);
        let off: usize = kani::any();
        kani::assume(off <= 4);
        let lit: [u8; 2] = kani::any();
        let fwd: bool = kani::any();
        let (mut qu, mut qa) = (u.left_end() + off, a.left_end() + off);
        let (ru, ra) = if fwd {
            (u.match_bytes(Forward::new(), &mut qu, &lit), a.match_bytes(Forward::new(), &mut qa, &lit))
        } else {
            (u.match_bytes(Backward::new(), &mut qu, &lit), a.match_bytes(Backward::new(), &mut qa, &lit))
        };
        assert!(ru == ra);
        if ru { assert!(u.pos_to_offset(qu) == a.pos_to_offset(qa)); }
        let rs: usize = kani::any();
        let re: usize = kani::any();
        kani::assume(rs <= re && re <= 4);
        let (mut qu, mut qa) = (u.left_end() + off, a.left_end() + off);
        let rgu = (u.left_end() + rs)..(u.left_end() + re);
        let rga = (a.left_end() + rs)..(a.left_end() + re);
        let (ru, ra) = if fwd {
            (u.subrange_eq(Forward::new(), &mut qu, rgu), a.subrange_eq(Forward::new(), &mut qa, rga))
        } else {
            (u.subrange_eq(Backward::new(), &mut qu, rgu), a.subrange_eq(Backward::new(), &mut qa, rga))
        };
        assert!(ru == ra);
        if ru { assert!(u.pos_to_offset(qu) == a.pos_to_offset(qa)); }
        let bm = crate::bytesearch::ByteBitmap::new(&lit);
        assert!(u.find_bytes(u.left_end() + off, &bm).map(|q| u.pos_to_offset(q))
            == a.find_bytes(a.left_end() + off, &bm).map(|q| a.pos_to_offset(q)));
        kani::cover!(ru && re - rs == 2);
    }

    // @obligation name=a5_element_try_from props=C13,C03:t fn=indexing::ElementType::try_from kind=complete domain="every u32 / every char" min_checks=5
    // ElementType::try_from: u32 -> u8 succeeds iff the value is < 256 (value preserved); u32 -> char iff it is a scalar value; as_u32 is the identity embedding.
    #[kani::proof]
    fn a5_element_try_from() {
        let v: u32 = kani::any();
        let r8 = <u8 as ElementType>::try_from(v);
        assert!(r8.is_some() == (v < 256));
        if let Some(x) = r8 { assert!(x as u32 == v && x.as_u32() == v); }
        let rc = <char as ElementType>::try_from(v);
        assert!(rc == char::from_u32(v));
        if let Some(c) = rc { assert!(c.as_u32() == v); }
        let r32 = <u32 as ElementType>::try_from(v);
        assert!(r32 == Some(v));
        kani::cover!(v >= 0xD800 && v < 0xE000);
    }

    // ---------------------------------------------------------------------------------------------
    // UTF-16 / UCS-2 inputs (feature utf16)

    // @obligation name=a6_utf16_next_right_left props=C14 fn=indexing::Utf16Input::next_right,indexing::Utf16Input::next_left,indexing::Utf16Input::next_right_pos,indexing::Utf16Input::next_left_pos kind=complete domain="every pair of code units (u16,u16), every position 0..=2" features=utf16 min_checks=100 w=2 timeout=900
    // Utf16Input decoding on an arbitrary 2-unit slice (lone surrogates included): next_right pairs exactly a high surrogate
    // followed by a low one (value = the supplementary code point), otherwise yields the unit itself; next_left is its
    // mirror image; next_*_pos move by the same amount; no panic and no position outside 0..=len.
    #[cfg(feature = "utf16")]
    #[kani::proof]
    fn a6_utf16_next_right_left() {
        let u: [u16; 2] = kani::any();
        let input = Utf16Input::new(&u, kani::any());
        let hi = |x: u16| (0xD800..=0xDBFF).contains(&x);
        let lo = |x: u16| (0xDC00..=0xDFFF).contains(&x);
        let pair = hi(u[0]) && lo(u[1]);
        let cp = 0x10000 + (((u[0] as u32) & 0x3FF) << 10) + ((u[1] as u32) & 0x3FF);
        let k: usize = kani::any();
        kani::assume(k <= 2);
        let start = input.left_end() + k;
        let mut p = start;
        let r = input.next_right(&mut p);
        let np = input.next_right_pos(start);
        match k {
            0 => {
                if pair { assert!(r == Some(cp) && input.pos_to_offset(p) == 2); } else { assert!(r == Some(u[0] as u32) && input.pos_to_offset(p) == 1); }
                assert!(np == Some(p));
            }
            1 => { assert!(r == Some(u[1] as u32) && input.pos_to_offset(p) == 2 && np == Some(p)); }
            _ => { assert!(r.is_none() && p == start && np.is_none()); }
        }
        let mut q = start;
        let l = input.next_left(&mut q);
        let nq = input.next_left_pos(start);
        match k {
            0 => { assert!(l.is_none() && q == start && nq.is_none()); }
            1 => { assert!(l == Some(u[0] as u32) && input.pos_to_offset(q) == 0 && nq == Some(q)); }
            _ => {
                if pair { assert!(l == Some(cp) && input.pos_to_offset(q) == 0); } else { assert!(l == Some(u[1] as u32) && input.pos_to_offset(q) == 1); }
                assert!(nq == Some(q));
            }
        }
        kani::cover!(pair && k == 2);
        kani::cover!(hi(u[0]) && !lo(u[1]));
    }

    // @obligation name=a6_utf16_agrees_with_std props=C14 fn=indexing::Utf16Input::next_right kind=complete domain="every char (its UTF-16 encoding)" features=utf16 min_checks=100 w=2 timeout=900
    // On the well-formed UTF-16 encoding of any char, next_right returns that char's code point and consumes the whole
    // encoding (1 or 2 units) - agreement with std's encode_utf16.
    #[cfg(feature = "utf16")]
    #[kani::proof]
    fn a6_utf16_agrees_with_std() {
        let c: char = kani::any();
        let mut buf = [0u16; 2];
        let n = c.encode_utf16(&mut buf).len();
        let input = Utf16Input::new(&buf[..n], true);
        let mut p = input.left_end();
        assert!(input.next_right(&mut p) == Some(c as u32));
        assert!(input.pos_to_offset(p) == n);
        let mut q = input.right_end();
        assert!(input.next_left(&mut q) == Some(c as u32));
        assert!(input.pos_to_offset(q) == 0);
        kani::cover!(n == 2);
    }

    // @obligation name=a6_ucs2_never_pairs props=C14 fn=indexing::Ucs2Input::next_right,indexing::Ucs2Input::next_left,indexing::Ucs2Input::subrange_eq kind=complete domain="every pair of code units, every position" features=utf16 min_checks=100 w=2 timeout=900
    // Ucs2Input treats every code unit as one element (never pairs surrogates), in both directions; subrange_eq compares
    // code units and moves by the range length; no panic on arbitrary units.
    #[cfg(feature = "utf16")]
    #[kani::proof]
    fn a6_ucs2_never_pairs() {
        let u: [u16; 2] = kani::any();
        let input = Ucs2Input::new(&u, kani::any());
        let k: usize = kani::any();
        kani::assume(k <= 2);
        let start = input.left_end() + k;
        let mut p = start;
        let r = input.next_right(&mut p);
        assert!(r == if k < 2 { Some(u[k] as u32) } else { None });
        assert!(input.pos_to_offset(p) == if k < 2 { k + 1 } else { k });
        let mut q = start;
        let l = input.next_left(&mut q);
        assert!(l == if k > 0 { Some(u[k - 1] as u32) } else { None });
        assert!(input.pos_to_offset(q) == if k > 0 { k - 1 } else { k });
        // backreference to the first unit, matched at position 1
        let mut b = input.left_end() + 1;
        let ok = input.subrange_eq(Forward::new(), &mut b, input.left_end()..(input.left_end() + 1));
        assert!(ok == (u[0] == u[1]));
        if ok { assert!(input.pos_to_offset(b) == 2); }
        kani::cover!(ok);
    }
}
