#!/usr/bin/env python3
"""Generates the C17 template-expansion obligations (j2c_*) into the marked region of contracts/api.kani.rs.
Each obligation runs the real Regex::expand_replacement on a handful of CONCRETE templates (symbolic group participation)
and compares the output with spec_expand, the template specification written from the property text. Symbolic templates do
not close (Peekable<Chars> over symbolic bytes: j2s_* time out), hence the enumeration; the obligations are bounded checks."""
import itertools
import os

HERE = os.path.dirname(os.path.abspath(__file__))
TARGET = os.path.join(HERE, "..", "api.kani.rs")


def rs(t):
    return '"' + t.replace("\\", "\\\\").replace('"', '\\"') + '"'


def harness(name, props, templates, what, mb=False, finding=None, w=2, timeout=900):
    n = max(len(t.encode()) for t in templates)
    bound = "the %d concrete templates %s; haystack %s; group 1 (named n) participation symbolic" % (
        len(templates), " ".join(repr(t) for t in templates).replace('"', "'"), "'w\\u{e9}yz' (2-byte char inside the match)" if mb else "'wxyz'")
    out = []
    out.append('    // @obligation name=%s props=%s fn=api::Regex::expand_replacement,api::Match::group,api::Match::named_group kind=bounded bound="%s" min_checks=50 w=%d timeout=%d%s'
               % (name, props, bound, w, timeout, (" finding=" + finding) if finding else ""))
    out.append("    // %s: expand_replacement(template) == spec_expand(template) (`$$` -> `$`, `$N` with the maximal digit run -> group" % what)
    out.append("    // text or nothing, `${name}` -> named group text or nothing, an unterminated `${` and everything else literal).")
    out.append("    #[kani::proof]")
    out.append("    #[kani::unwind(%d)]" % (n + 4))
    out.append("    fn %s() {" % name)
    for t in templates:
        shown = t.replace("{", "{{").replace("}", "}}").replace("\\", "\\\\").replace('"', "'")
        out.append("        let r = run_template(%s, %s);" % (rs(t), "true" if mb else "false"))
        out.append('        assert!(r.0, "template `%s`: expansion length equals the template specification");' % shown)
        out.append('        assert!(r.1, "template `%s`: expansion content equals the template specification");' % shown)
    out.append("        kani::cover!(true, \"end of the harness is reachable (vacuity guard)\");")
    out.append("    }")
    out.append("")
    return out


def main():
    lines = []
    lines += harness("j2c_literal", "C17", ["", "a", "ab}", "é{", "}{a"], "templates without `$`")
    lines += harness("j2c_dollar", "C17", ["$", "$$", "$$$", "a$", "$a", "$$1", "$}", "$é"], "`$$`, trailing and stray `$`")
    lines += harness("j2c_numbered", "C17", ["$0", "$1", "$2", "$01", "$10", "$1a", "$1$1", "a$0b", "$1$"], "numbered references")
    lines += harness("j2c_named", "C17", ["${n}", "${m}", "${}", "${n", "${", "${n}${n}", "a${n}b", "${n}}", "${$n}", "${nn}"], "named references")
    lines += harness("j2c_multibyte", "C17", ["$0", "$1é", "é${n}", "$$é$"], "multi-byte haystack and template", mb=True)
    lines += harness("j2c_digit_run_small", "C17", ["$000001", "$65535", "$0000000"], "long digit runs below the group-count cap")
    lines += harness("j2c_digit_run_cap", "C17", ["$65536", "$655360", "$1234567", "$65536a"], "digit runs whose value exceeds 65535 (F8, fixed)")
    lines += harness("j2c_digit_run_huge", "C17:t", ["$99999999999999999999", "$18446744073709551616"], "digit runs beyond usize::MAX (F8, fixed)", w=3, timeout=1500)
    # thorough: every template of length <= 3 over {$, 1, {, }, n}
    alpha = ["$", "1", "{", "}", "n"]
    allt = [""] + ["".join(t) for k in (1, 2, 3) for t in itertools.product(alpha, repeat=k)]
    chunk = 6
    for i in range(0, len(allt), chunk):
        lines += harness("j2c_all3_%02d" % (i // chunk), "C17:t", allt[i:i + chunk],
                         "exhaustive: templates %d..%d of the %d templates of length <= 3 over {$,1,{,},n}" % (i, min(i + chunk, len(allt)) - 1, len(allt)))
    with open(TARGET) as f:
        s = f.read()
    b = s.index("    // BEGIN GENERATED j2c")
    e = s.index("    // END GENERATED j2c")
    s = s[:b] + "    // BEGIN GENERATED j2c (contracts/gen/gen_api.py)\n" + "\n".join(lines) + "\n" + s[e:]
    with open(TARGET, "w") as f:
        f.write(s)
    print("generated %d j2c obligations" % sum(1 for l in lines if "@obligation" in l))


main()
