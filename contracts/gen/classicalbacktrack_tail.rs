
    // =================================== E3: undo discipline ===================================
    // Function-level postcondition of try_at_pos: `None` is returned only with State equal to its value at entry
    // and the backtrack stack back to [Exhausted]. With the one-instruction programs below, restoration can only come
    // from the undo records the instruction itself pushed.

    // @obligation name=e3_bt_end_capture_group props=C01,C02 fn=classicalbacktrack::MatchAttempter::try_at_pos kind=bounded bound="program [EndCaptureGroup(0), JustFail]; symbolic initial group; 1-byte haystack; both directions" min_checks=1000 w=2 timeout=900
    // Undo discipline for EndCaptureGroup: when the continuation fails, the group's bounds are what they were before
    // the instruction ran (a later alternative must not see the abandoned path's capture).
    #[kani::proof]
    #[kani::unwind(4)]
    #[kani::stub(MatchAttempter::run_lookaround, no_lookaround)]
    #[kani::stub(MatchAttempter::run_scm_loop, no_scm_loop)]
    #[kani::stub(MatchAttempter::run_loop, no_run_loop)]
    #[kani::stub(MatchAttempter::try_backtrack, spec_backtrack)]
    fn e3_bt_end_capture_group() {
        let re = mk(vec![Insn::EndCaptureGroup(0), Insn::JustFail], 0, 1, vec![]);
        let input = Utf8Input::new("a", false);
        let mut m = MatchAttempter::<Utf8Input>::new(&re, input.left_end());
        let g0 = GroupData { start: any_opt_pos(&input, 1), end: any_opt_pos(&input, 1) };
        let fwd: bool = kani::any();
        kani::assume(if fwd { g0.start.is_some() } else { g0.end.is_some() });
        m.s.groups[0] = g0;
        let p: usize = kani::any();
        kani::assume(p <= 1);
        let pos = input.left_end() + p;
        let r = if fwd { m.try_at_pos(input, 0, pos, Forward::new()) } else { m.try_at_pos(input, 0, pos, Backward::new()) };
        assert!(r.is_none());
        assert!(m.bts.len() == 1);
        assert!(m.s.groups[0].start == g0.start, "EndCaptureGroup: group start restored on failure");
        assert!(m.s.groups[0].end == g0.end, "EndCaptureGroup: group end restored on failure");
        kani::cover!(g0.end.is_some() && fwd);
    }

    fn e3_begin_reset_body(reset: bool) {
        let re = mk(vec![if reset { Insn::ResetCaptureGroup(0) } else { Insn::BeginCaptureGroup(0) }, Insn::JustFail], 0, 1, vec![]);
        let input = Utf8Input::new("a", false);
        let mut m = MatchAttempter::<Utf8Input>::new(&re, input.left_end());
        let g0 = GroupData { start: any_opt_pos(&input, 1), end: any_opt_pos(&input, 1) };
        let fwd: bool = kani::any();
        if !reset { kani::assume(if fwd { g0.end.is_none() } else { g0.start.is_none() }); }
        m.s.groups[0] = g0;
        let pos = input.left_end();
        let r = if fwd { m.try_at_pos(input, 0, pos, Forward::new()) } else { m.try_at_pos(input, 0, pos, Backward::new()) };
        assert!(r.is_none());
        assert!(m.bts.len() == 1);
        assert!(m.s.groups[0].start == g0.start && m.s.groups[0].end == g0.end);
        kani::cover!(g0.start.is_some());
        kani::cover!(!fwd);
    }

    // @obligation name=e3_bt_begin_capture_group props=C01,C02 fn=classicalbacktrack::MatchAttempter::try_at_pos kind=bounded bound="try_backtrack replaced by its contract (e4_bt_records_data); program [BeginCaptureGroup(0), JustFail]; symbolic initial group; both directions" min_checks=1000 w=2 timeout=900
    // Undo discipline for BeginCaptureGroup: when the continuation fails the group is what it was before.
    #[kani::proof]
    #[kani::unwind(4)]
    #[kani::stub(MatchAttempter::run_lookaround, no_lookaround)]
    #[kani::stub(MatchAttempter::run_scm_loop, no_scm_loop)]
    #[kani::stub(MatchAttempter::run_loop, no_run_loop)]
    #[kani::stub(MatchAttempter::try_backtrack, spec_backtrack)]
    fn e3_bt_begin_capture_group() {
        e3_begin_reset_body(false);
    }

    // @obligation name=e3_bt_reset_capture_group props=C01,C02 fn=classicalbacktrack::MatchAttempter::try_at_pos kind=bounded bound="try_backtrack replaced by its contract (e4_bt_records_data); program [ResetCaptureGroup(0), JustFail]; symbolic initial group; both directions" min_checks=1000 w=2 timeout=900
    // Undo discipline for ResetCaptureGroup (per-iteration capture reset): when the continuation fails the group is restored.
    #[kani::proof]
    #[kani::unwind(4)]
    #[kani::stub(MatchAttempter::run_lookaround, no_lookaround)]
    #[kani::stub(MatchAttempter::run_scm_loop, no_scm_loop)]
    #[kani::stub(MatchAttempter::run_loop, no_run_loop)]
    #[kani::stub(MatchAttempter::try_backtrack, spec_backtrack)]
    fn e3_bt_reset_capture_group() {
        e3_begin_reset_body(true);
    }

    static mut SNAP_ITERS: usize = 0;
    static mut SNAP_BTS_LEN: usize = 0;
    static mut SNAP_CALLED: bool = false;
    static mut SNAP_REC_OK: bool = false;
    fn snap_run_loop<'a, Input: InputIndexer>(
        this: &mut MatchAttempter<'a, Input>, loop_fields: &'a LoopFields, _pos: Input::Position, _ip: IP,
    ) -> Option<IP> where 'a: 'a {
        unsafe {
            SNAP_CALLED = true;
            SNAP_ITERS = this.s.loops[loop_fields.loop_id as usize].iters;
            SNAP_BTS_LEN = this.bts.len();
        }
        None
    }

    // @obligation name=e3a_bt_enter_loop props=C02,C05,C01 fn=classicalbacktrack::MatchAttempter::try_at_pos kind=complete domain="every min/max/greedy, every initial iters; arm-level obligation with run_loop replaced by a recorder" min_checks=1000 w=2 timeout=900
    // Undo discipline for the EnterLoop arm: at the call to run_loop every loop-data slot the arm has written is covered
    // by an undo record, and after the (failing) continuation the loop counter is what it was before the instruction.
    #[kani::proof]
    #[kani::unwind(4)]
    #[kani::stub(MatchAttempter::run_lookaround, no_lookaround)]
    #[kani::stub(MatchAttempter::run_scm_loop, no_scm_loop)]
    #[kani::stub(MatchAttempter::run_loop, snap_run_loop)]
    #[kani::stub(MatchAttempter::try_backtrack, spec_backtrack)]
    fn e3a_bt_enter_loop() {
        let min: usize = kani::any();
        let max: usize = kani::any();
        let greedy: bool = kani::any();
        let re = mk(
            vec![Insn::EnterLoop(LoopFields { loop_id: 0, min_iters: min, max_iters: max, greedy, exit: 1 }), Insn::JustFail],
            1, 0, vec![],
        );
        let input = Utf8Input::new("a", false);
        let mut m = MatchAttempter::<Utf8Input>::new(&re, input.left_end());
        let iters: usize = kani::any();
        m.s.loops[0] = LoopData { iters, entry: input.left_end() };
        let r = m.try_at_pos(input, 0, input.left_end(), Forward::new());
        assert!(r.is_none());
        unsafe {
            assert!(SNAP_CALLED);
            // entering from outside: run_loop must observe a zero counter
            assert!(SNAP_ITERS == 0, "EnterLoop: loop counter is reset on entry from outside");
        }
        assert!(m.bts.len() == 1);
        assert!(m.s.loops[0].iters == iters, "EnterLoop: loop counter restored when the loop is backtracked out of");
        kani::cover!(iters != 0);
    }

    // =================================== E4: backtrack records ===================================

    // @obligation name=e4_bt_records_data props=C01,C02,C05:t fn=classicalbacktrack::MatchAttempter::try_backtrack,classicalbacktrack::MatchAttempter::pop_backtrack kind=bounded bound="stack [Exhausted, SetPosition, SetLoopData{id 0}, SetCaptureGroup{id 1}] with symbolic payloads (2 loops, 2 groups)" features=default features_thorough=prohibit-unsafe min_checks=500 w=3 timeout=1200
    // try_backtrack pops data records restoring exactly the slot they name (other slots untouched), stops at the first
    // SetPosition restoring (ip,pos), and returns false on Exhausted without popping it; the stack never underflows.
    #[kani::proof]
    #[kani::unwind(6)]
    fn e4_bt_records_data() {
        let re = mk(vec![Insn::Goal], 2, 2, vec![]);
        let input = Utf8Input::new("ab", false);
        let mut m = MatchAttempter::<Utf8Input>::new(&re, input.left_end());
        let gd = GroupData { start: any_opt_pos(&input, 2), end: any_opt_pos(&input, 2) };
        let e: usize = kani::any();
        kani::assume(e <= 2);
        let ld = LoopData { iters: kani::any(), entry: input.left_end() + e };
        let (gid, lid): (u16, u16) = (1, 0);
        let sp_ip: usize = kani::any();
        let sp_off: usize = kani::any();
        kani::assume(sp_off <= 2);
        let og = [m.s.groups[0], m.s.groups[1]];
        let ol = [m.s.loops[0], m.s.loops[1]];
        m.bts.push(BacktrackInsn::SetPosition { ip: sp_ip, pos: input.left_end() + sp_off });
        m.bts.push(BacktrackInsn::SetLoopData { id: lid, data: ld });
        m.bts.push(BacktrackInsn::SetCaptureGroup { id: gid, data: gd });
        let mut ip: IP = kani::any();
        let mut pos = input.left_end();
        let ok = m.try_backtrack(&input, &mut ip, &mut pos, Forward::new());
        assert!(ok);
        assert!(ip == sp_ip && pos == input.left_end() + sp_off);
        assert!(m.bts.len() == 1);
        let g = m.s.groups[gid as usize];
        assert!(g.start == gd.start && g.end == gd.end);
        let other = m.s.groups[1 - gid as usize];
        assert!(other.start == og[1 - gid as usize].start && other.end == og[1 - gid as usize].end);
        assert!(m.s.loops[lid as usize].iters == ld.iters && m.s.loops[lid as usize].entry == ld.entry);
        assert!(m.s.loops[1 - lid as usize].iters == ol[1 - lid as usize].iters);
        kani::cover!(gd.start.is_some());
    }

    // @obligation name=e4_bt_records_exhausted props=C01,C02,C05:t fn=classicalbacktrack::MatchAttempter::try_backtrack kind=bounded bound="stacks [Exhausted] and [Exhausted, SetCaptureGroup]" min_checks=300 w=2 timeout=900
    // On the backstop record try_backtrack returns false without popping it or touching ip/pos (the stack never underflows);
    // data records above it are applied first.
    #[kani::proof]
    #[kani::unwind(4)]
    fn e4_bt_records_exhausted() {
        let re = mk(vec![Insn::Goal], 0, 1, vec![]);
        let input = Utf8Input::new("ab", false);
        let mut m = MatchAttempter::<Utf8Input>::new(&re, input.left_end());
        let gd = GroupData { start: any_opt_pos(&input, 2), end: any_opt_pos(&input, 2) };
        let with_rec: bool = kani::any();
        if with_rec { m.bts.push(BacktrackInsn::SetCaptureGroup { id: 0, data: gd }); }
        let mut ip: IP = 41;
        let mut pos = input.left_end() + 1;
        let ok = m.try_backtrack(&input, &mut ip, &mut pos, Forward::new());
        assert!(!ok && m.bts.len() == 1 && ip == 41 && pos == input.left_end() + 1);
        if with_rec { assert!(m.s.groups[0].start == gd.start && m.s.groups[0].end == gd.end); }
        kani::cover!(with_rec);
    }

    // @obligation name=e4_bt_records_loop1char props=C01,C02,C05 fn=classicalbacktrack::MatchAttempter::try_backtrack kind=bounded bound="2-char haystack (every pair of chars); record min/max at any boundaries in travel order; both directions; greedy and lazy" min_checks=500 w=2 timeout=900
    // GreedyLoop1Char gives back exactly one character per backtrack (max moves one character toward min, pos = new max,
    // ip = continuation) and is discarded when max == min; NonGreedyLoop1Char takes exactly one more character
    // (min moves toward max). Strictly decreasing distance => the record is consumed after finitely many steps.
    #[kani::proof]
    #[kani::unwind(5)]
    fn e4_bt_records_loop1char() {
        let h = Hay::any();
        let input = Utf8Input::new(h.text(), false);
        let re = mk(vec![Insn::Goal], 0, 0, vec![]);
        let mut m = MatchAttempter::<Utf8Input>::new(&re, input.left_end());
        let kmin = Hay::any_boundary();
        let kmax = Hay::any_boundary();
        let fwd: bool = kani::any();
        let greedy: bool = kani::any();
        kani::assume(if fwd { kmin <= kmax } else { kmin >= kmax });
        let cont: IP = kani::any();
        let (pmin, pmax) = (input.left_end() + h.off(kmin), input.left_end() + h.off(kmax));
        m.bts.push(if greedy {
            BacktrackInsn::GreedyLoop1Char { continuation: cont, min: pmin, max: pmax }
        } else {
            BacktrackInsn::NonGreedyLoop1Char { continuation: cont, min: pmin, max: pmax }
        });
        let mut ip: IP = 99;
        let mut pos = input.left_end();
        let ok = if fwd {
            m.try_backtrack(&input, &mut ip, &mut pos, Forward::new())
        } else {
            m.try_backtrack(&input, &mut ip, &mut pos, Backward::new())
        };
        if kmin == kmax {
            assert!(!ok && m.bts.len() == 1);
        } else {
            assert!(ok && ip == cont && m.bts.len() == 2);
            // one character given back (greedy) / taken (lazy)
            let exp_k = if greedy {
                if fwd { kmax - 1 } else { kmax + 1 }
            } else if fwd { kmin + 1 } else { kmin - 1 };
            assert!(input.pos_to_offset(pos) == h.off(exp_k));
            match &m.bts[1] {
                BacktrackInsn::GreedyLoop1Char { continuation, min, max } => {
                    assert!(greedy && *continuation == cont && *min == pmin && *max == pos);
                }
                BacktrackInsn::NonGreedyLoop1Char { continuation, min, max } => {
                    assert!(!greedy && *continuation == cont && *min == pos && *max == pmax);
                }
                _ => assert!(false),
            }
        }
        kani::cover!(ok && greedy && !fwd);
        kani::cover!(ok && !greedy && fwd && h.n1 == 4);
    }

    // =================================== E5: single-character loops ===================================

    // @obligation name=e5_bt_scm_loop props=C01,C02,C03:t,C05 fn=classicalbacktrack::MatchAttempter::run_scm_loop,classicalbacktrack::MatchAttempter::run_scm_loop_impl,classicalbacktrack::MatchAttempter::compute_max_pos,classicalbacktrack::MatchAttempter::with_scm_loop_impl,classicalbacktrack::MatchAttempter::with_scm_compute_max kind=bounded bound="3-byte ASCII haystack (symbolic), start offset 0, body ByteSeq1([x]); min<=max with max<=3 or max=usize::MAX; greedy and lazy" min_checks=500 w=3 timeout=1200
    // run_scm_loop: fails iff fewer than min characters match; otherwise continues at ip+2 with pos after the longest run
    // <= max (greedy) or after exactly min (lazy), and pushes one Loop1Char record [min_pos,max_pos] iff they differ.
    #[kani::proof]
    #[kani::unwind(6)]
    fn e5_bt_scm_loop() {
        let b: [u8; 3] = kani::any();
        kani::assume(b[0] < 128 && b[1] < 128 && b[2] < 128);
        let text = unsafe { core::str::from_utf8_unchecked(&b) };
        let input = Utf8Input::new(text, false);
        let x: u8 = kani::any();
        let min: usize = kani::any();
        let max: usize = kani::any();
        kani::assume(min <= max && min <= 3 && (max <= 3 || max == usize::MAX));
        let greedy: bool = kani::any();
        let re = mk(vec![Insn::Loop1CharBody { min_iters: min, max_iters: max, greedy }, Insn::ByteSeq1([x]), Insn::Goal], 0, 0, vec![]);
        let mut m = MatchAttempter::<Utf8Input>::new(&re, input.left_end());
        let mut pos = input.left_end();
        let r = m.run_scm_loop(&input, Forward::new(), &mut pos, min, max, 0, greedy);
        // spec: run = length of the longest prefix of x's
        let run = if b[0] != x { 0 } else if b[1] != x { 1 } else if b[2] != x { 2 } else { 3 };
        if run < min {
            assert!(r.is_none());
            assert!(m.bts.len() == 1);
        } else {
            let hi = if run < max { run } else { max };
            assert!(r == Some(2));
            assert!(input.pos_to_offset(pos) == if greedy { hi } else { min });
            if hi != min {
                assert!(m.bts.len() == 2);
                match &m.bts[1] {
                    BacktrackInsn::GreedyLoop1Char { continuation, min: a, max: z } => {
                        assert!(greedy && *continuation == 2 && input.pos_to_offset(*a) == min && input.pos_to_offset(*z) == hi);
                    }
                    BacktrackInsn::NonGreedyLoop1Char { continuation, min: a, max: z } => {
                        assert!(!greedy && *continuation == 2 && input.pos_to_offset(*a) == min && input.pos_to_offset(*z) == hi);
                    }
                    _ => assert!(false),
                }
            } else {
                assert!(m.bts.len() == 1);
            }
        }
        kani::cover!(r.is_some() && run == 3 && max == usize::MAX && !greedy);
        kani::cover!(r.is_none());
    }

    fn scm_kinds_body(which: u8) {
        let h = Hay::any_ascii();
        let input = Utf8Input::new(h.text(), false);
        let c: u32 = kani::any();
        let s: [u8; 4] = kani::any();
        let (cps, _ivs, _n) = crate::matchers::__verif::any_cps(1);
        let body = match which {
            0 => Insn::Char(c),
            1 => Insn::CharSet([c, s[0] as u32, s[1] as u32, s[2] as u32]),
            2 => Insn::Bracket(0),
            3 => Insn::AsciiBracket(crate::bytesearch::AsciiBitmap(kani::any())),
            4 => Insn::MatchAnyExceptLineTerminator,
            5 => Insn::ByteSet2(crate::bytesearch::ByteArraySet([s[0], s[1]])),
            6 => Insn::ByteSet4(crate::bytesearch::ByteArraySet(s)),
            _ => Insn::ByteSeq1([s[0]]),
        };
        let min: usize = kani::any();
        let max: usize = kani::any();
        kani::assume(min <= 1 && max >= 1 && max <= 2 && min <= max);
        let re = mk(vec![Insn::Loop1CharBody { min_iters: min, max_iters: max, greedy: true }, body, Insn::Goal], 0, 0,
                    vec![BracketContents { invert: false, cps }]);
        let r = MatchAttempter::<Utf8Input>::with_scm_loop_impl(&re, &input, input.left_end(), min, max, Forward::new(), 0);
        if min == 0 {
            assert!(r.is_some(), "a loop with min == 0 never fails");
        }
        if let Some((a, z)) = r {
            assert!(input.pos_to_offset(a) == min && input.pos_to_offset(z) >= min && input.pos_to_offset(z) <= max);
        }
        kani::cover!(r.is_some());
        kani::cover!(r.is_none());
    }

    fn scm_kinds_body_ascii(which: u8) {
        let h = Hay::any_ascii();
        let ainput = AsciiInput::new(h.text(), false);
        let c: u32 = kani::any();
        let s: [u8; 4] = kani::any();
        let (cps, _ivs, _n) = crate::matchers::__verif::any_cps(1);
        let body = match which {
            0 => Insn::Char(c),
            1 => Insn::CharSet([c, s[0] as u32, s[1] as u32, s[2] as u32]),
            _ => Insn::Bracket(0),
        };
        let min: usize = kani::any();
        kani::assume(min <= 1);
        let re = mk(vec![Insn::Loop1CharBody { min_iters: min, max_iters: 2, greedy: true }, body, Insn::Goal], 0, 0,
                    vec![BracketContents { invert: false, cps }]);
        let r = MatchAttempter::<AsciiInput>::with_scm_loop_impl(&re, &ainput, ainput.left_end(), min, 2, Forward::new(), 0);
        if min == 0 {
            assert!(r.is_some(), "a loop with min == 0 never fails (ASCII input), whatever the operand");
        }
        let rm = MatchAttempter::<AsciiInput>::with_scm_compute_max(&re, &ainput, ainput.left_end(), 2, Forward::new(), 0);
        assert!(rm.is_some(), "computing the maximal run never fails (ASCII input)");
        kani::cover!(c > 255 && which == 0);
    }

    // @obligation name=e5_bt_scm_body_char_ascii props=C03,C13 fn=classicalbacktrack::MatchAttempter::with_scm_loop_impl,classicalbacktrack::MatchAttempter::with_scm_compute_max kind=bounded bound="2-char ASCII haystack, ASCII input; body Char(c) for every u32 c; min in {0,1}, max 2" min_checks=300 w=2 timeout=900
    // ASCII input, body Char(c): a loop with min == 0 never fails and computing the maximal run never fails, even when c is
    // not representable as a byte (it then matches zero times).
    #[kani::proof]
    #[kani::unwind(6)]
    fn e5_bt_scm_body_char_ascii() {
        scm_kinds_body_ascii(0);
    }

    // @obligation name=e5_bt_scm_body_char props=C01,C03,C13 fn=classicalbacktrack::MatchAttempter::with_scm_loop_impl,classicalbacktrack::MatchAttempter::with_scm_compute_max kind=bounded bound="2-char ASCII haystack; body kind char with symbolic operand (a Char operand ranges over every u32); min in {0,1}, max in {1,2}; UTF-8 and ASCII inputs" min_checks=300 w=2 timeout=900
    // with_scm_loop_impl/with_scm_compute_max for body kind char: Some((pos_after_min, pos_after_run)); a loop with min == 0
    // never fails whatever the operand (a Char the input's element type cannot represent matches zero times), computing the
    // maximal run never fails, and the ASCII input agrees with the UTF-8 input.
    #[kani::proof]
    #[kani::unwind(6)]
    fn e5_bt_scm_body_char() {
        scm_kinds_body(0);
    }

    // @obligation name=e5_bt_scm_body_charset props=C01:t,C03:t,C13:t fn=classicalbacktrack::MatchAttempter::with_scm_loop_impl,classicalbacktrack::MatchAttempter::with_scm_compute_max kind=bounded bound="2-char ASCII haystack; body kind charset with symbolic operand (a Char operand ranges over every u32); min in {0,1}, max in {1,2}; UTF-8 and ASCII inputs" min_checks=300 w=2 timeout=900
    // with_scm_loop_impl/with_scm_compute_max for body kind charset: Some((pos_after_min, pos_after_run)); a loop with min == 0
    // never fails whatever the operand (a Char the input's element type cannot represent matches zero times), computing the
    // maximal run never fails, and the ASCII input agrees with the UTF-8 input.
    #[kani::proof]
    #[kani::unwind(6)]
    fn e5_bt_scm_body_charset() {
        scm_kinds_body(1);
    }

    // @obligation name=e5_bt_scm_body_bracket props=C01:t,C03,C13:t fn=classicalbacktrack::MatchAttempter::with_scm_loop_impl,classicalbacktrack::MatchAttempter::with_scm_compute_max kind=bounded bound="2-char ASCII haystack; body kind bracket with symbolic operand (a Char operand ranges over every u32); min in {0,1}, max in {1,2}; UTF-8 and ASCII inputs" min_checks=300 w=2 timeout=900
    // with_scm_loop_impl/with_scm_compute_max for body kind bracket: Some((pos_after_min, pos_after_run)); a loop with min == 0
    // never fails whatever the operand (a Char the input's element type cannot represent matches zero times), computing the
    // maximal run never fails, and the ASCII input agrees with the UTF-8 input.
    #[kani::proof]
    #[kani::unwind(6)]
    fn e5_bt_scm_body_bracket() {
        scm_kinds_body(2);
    }

    // @obligation name=e5_bt_scm_body_ascii_bracket props=C01:t,C03:t,C13:t fn=classicalbacktrack::MatchAttempter::with_scm_loop_impl,classicalbacktrack::MatchAttempter::with_scm_compute_max kind=bounded bound="2-char ASCII haystack; body kind ascii_bracket with symbolic operand (a Char operand ranges over every u32); min in {0,1}, max in {1,2}; UTF-8 and ASCII inputs" min_checks=300 w=2 timeout=900
    // with_scm_loop_impl/with_scm_compute_max for body kind ascii_bracket: Some((pos_after_min, pos_after_run)); a loop with min == 0
    // never fails whatever the operand (a Char the input's element type cannot represent matches zero times), computing the
    // maximal run never fails, and the ASCII input agrees with the UTF-8 input.
    #[kani::proof]
    #[kani::unwind(6)]
    fn e5_bt_scm_body_ascii_bracket() {
        scm_kinds_body(3);
    }

    // @obligation name=e5_bt_scm_body_match_any props=C01:t,C03:t,C13:t fn=classicalbacktrack::MatchAttempter::with_scm_loop_impl,classicalbacktrack::MatchAttempter::with_scm_compute_max kind=bounded bound="2-char ASCII haystack; body kind match_any with symbolic operand (a Char operand ranges over every u32); min in {0,1}, max in {1,2}; UTF-8 and ASCII inputs" min_checks=300 w=2 timeout=900
    // with_scm_loop_impl/with_scm_compute_max for body kind match_any: Some((pos_after_min, pos_after_run)); a loop with min == 0
    // never fails whatever the operand (a Char the input's element type cannot represent matches zero times), computing the
    // maximal run never fails, and the ASCII input agrees with the UTF-8 input.
    #[kani::proof]
    #[kani::unwind(6)]
    fn e5_bt_scm_body_match_any() {
        scm_kinds_body(4);
    }

    // @obligation name=e5_bt_scm_body_byteset2 props=C01:t,C03:t,C13:t fn=classicalbacktrack::MatchAttempter::with_scm_loop_impl,classicalbacktrack::MatchAttempter::with_scm_compute_max kind=bounded bound="2-char ASCII haystack; body kind byteset2 with symbolic operand (a Char operand ranges over every u32); min in {0,1}, max in {1,2}; UTF-8 and ASCII inputs" min_checks=300 w=2 timeout=900
    // with_scm_loop_impl/with_scm_compute_max for body kind byteset2: Some((pos_after_min, pos_after_run)); a loop with min == 0
    // never fails whatever the operand (a Char the input's element type cannot represent matches zero times), computing the
    // maximal run never fails, and the ASCII input agrees with the UTF-8 input.
    #[kani::proof]
    #[kani::unwind(6)]
    fn e5_bt_scm_body_byteset2() {
        scm_kinds_body(5);
    }

    // @obligation name=e5_bt_scm_body_byteset4 props=C01:t,C03:t,C13:t fn=classicalbacktrack::MatchAttempter::with_scm_loop_impl,classicalbacktrack::MatchAttempter::with_scm_compute_max kind=bounded bound="2-char ASCII haystack; body kind byteset4 with symbolic operand (a Char operand ranges over every u32); min in {0,1}, max in {1,2}; UTF-8 and ASCII inputs" min_checks=300 w=2 timeout=900
    // with_scm_loop_impl/with_scm_compute_max for body kind byteset4: Some((pos_after_min, pos_after_run)); a loop with min == 0
    // never fails whatever the operand (a Char the input's element type cannot represent matches zero times), computing the
    // maximal run never fails, and the ASCII input agrees with the UTF-8 input.
    #[kani::proof]
    #[kani::unwind(6)]
    fn e5_bt_scm_body_byteset4() {
        scm_kinds_body(6);
    }

    // @obligation name=e5_bt_scm_body_byteseq1 props=C01:t,C03:t,C13:t fn=classicalbacktrack::MatchAttempter::with_scm_loop_impl,classicalbacktrack::MatchAttempter::with_scm_compute_max kind=bounded bound="2-char ASCII haystack; body kind byteseq1 with symbolic operand (a Char operand ranges over every u32); min in {0,1}, max in {1,2}; UTF-8 and ASCII inputs" min_checks=300 w=2 timeout=900
    // with_scm_loop_impl/with_scm_compute_max for body kind byteseq1: Some((pos_after_min, pos_after_run)); a loop with min == 0
    // never fails whatever the operand (a Char the input's element type cannot represent matches zero times), computing the
    // maximal run never fails, and the ASCII input agrees with the UTF-8 input.
    #[kani::proof]
    #[kani::unwind(6)]
    fn e5_bt_scm_body_byteseq1() {
        scm_kinds_body(7);
    }

    // =================================== E6: lookaround ===================================

    static mut LA_RESULT: bool = false;
    static mut LA_WRITE: bool = false;
    fn oracle_inner_attempt<'a, Input: InputIndexer, Dir: Direction>(
        this: &mut MatchAttempter<'a, Input>, _inp: Input, _ip: IP, pos: Input::Position, _dir: Dir,
    ) -> Option<Input::Position> where 'a: 'a {
        // contract of try_at_pos used here: stack is [Exhausted] at entry and exit; on success the groups of the
        // lookaround body (1..3 in the harness) may hold new values; on failure State is as at entry (E3).
        assert!(this.bts.len() == 1);
        unsafe {
            if LA_RESULT {
                if LA_WRITE {
                    this.s.groups[1] = GroupData { start: Some(pos), end: Some(pos) };
                    this.s.groups[2] = GroupData { start: Some(pos), end: None };
                }
                Some(pos)
            } else {
                None
            }
        }
    }

    // @obligation name=e6_bt_lookaround props= fn=classicalbacktrack::MatchAttempter::run_lookaround kind=bounded bound="4 groups, body owns groups 1..3; inner attempt replaced by an oracle meeting try_at_pos's contract; symbolic prior groups and prior stack depth 1..2" min_checks=500 w=4 timeout=2400
    // run_lookaround returns matched != negate and never moves the caller's position; if it returns with the body's
    // captures kept (positive, matched) then backtracking past it restores the previous values of exactly those
    // groups; otherwise (negative or failed) the groups and the caller's stack are exactly as before.
    #[kani::proof]
    #[kani::unwind(6)]
    #[kani::stub(MatchAttempter::try_at_pos, oracle_inner_attempt)]
    fn e6_bt_lookaround() {
        let re = mk(vec![Insn::Goal], 0, 4, vec![]);
        let input = Utf8Input::new("ab", false);
        let mut m = MatchAttempter::<Utf8Input>::new(&re, input.left_end());
        let negate: bool = kani::any();
        let inner: bool = kani::any();
        let wr: bool = kani::any();
        unsafe { LA_RESULT = inner; LA_WRITE = wr; }
        let old = [
            GroupData { start: any_opt_pos(&input, 2), end: any_opt_pos(&input, 2) },
            GroupData { start: any_opt_pos(&input, 2), end: any_opt_pos(&input, 2) },
            GroupData { start: any_opt_pos(&input, 2), end: any_opt_pos(&input, 2) },
            GroupData { start: any_opt_pos(&input, 2), end: any_opt_pos(&input, 2) },
        ];
        for i in 0..4 { m.s.groups[i] = old[i]; }
        // the caller may already have a choice point
        let prior: bool = kani::any();
        if prior { m.bts.push(BacktrackInsn::SetPosition { ip: 5, pos: input.left_end() + 1 }); }
        let depth = m.bts.len();
        let pos = input.left_end() + 1;
        let r = m.run_lookaround::<Forward>(&input, 1, pos, 1, 3, negate);
        assert!(r == (inner != negate));
        // groups outside the body are never touched
        assert!(m.s.groups[0].start == old[0].start && m.s.groups[0].end == old[0].end);
        assert!(m.s.groups[3].start == old[3].start && m.s.groups[3].end == old[3].end);
        if inner && !negate {
            // captures kept ...
            if wr { assert!(m.s.groups[1].start == Some(pos) && m.s.groups[2].end.is_none()); }
            // ... and undone by backtracking down to the caller's records
            let mut ip: IP = 0;
            let mut p2 = pos;
            let resumed = m.try_backtrack(&input, &mut ip, &mut p2, Forward::new());
            assert!(resumed == prior);
            assert!(m.bts.len() == 1);
        } else {
            assert!(m.bts.len() == depth);
        }
        if !(inner && !negate) || true {
            // after undoing (or when nothing was kept) the body's groups are the old ones
            for i in 1..3 {
                assert!(m.s.groups[i].start == old[i].start && m.s.groups[i].end == old[i].end);
            }
        }
        kani::cover!(inner && !negate && wr && prior);
        kani::cover!(inner && negate && wr);
    }

    static mut LA2_RESULT: bool = false;
    fn oracle_inner_attempt2<'a, Input: InputIndexer, Dir: Direction>(
        this: &mut MatchAttempter<'a, Input>, _inp: Input, _ip: IP, pos: Input::Position, _dir: Dir,
    ) -> Option<Input::Position> where 'a: 'a {
        assert!(this.bts.len() == 1);
        unsafe {
            if LA2_RESULT {
                this.s.groups[1] = GroupData { start: Some(pos), end: Some(pos) };
                Some(pos)
            } else {
                None
            }
        }
    }

    fn e6_small_body(negate: bool, inner: bool) {
        let re = mk(vec![Insn::Goal], 0, 2, vec![]);
        let input = Utf8Input::new("ab", false);
        let mut m = MatchAttempter::<Utf8Input>::new(&re, input.left_end());
        unsafe { LA2_RESULT = inner; }
        let old = [
            GroupData { start: any_opt_pos(&input, 2), end: any_opt_pos(&input, 2) },
            GroupData { start: any_opt_pos(&input, 2), end: any_opt_pos(&input, 2) },
        ];
        m.s.groups[0] = old[0];
        m.s.groups[1] = old[1];
        let pos = input.left_end() + 1;
        let r = m.run_lookaround::<Forward>(&input, 1, pos, 1, 2, negate);
        assert!(r == (inner != negate), "lookaround succeeds iff (body matched) != negate");
        assert!(m.s.groups[0].start == old[0].start && m.s.groups[0].end == old[0].end, "groups outside the body untouched");
        if inner && !negate {
            assert!(m.s.groups[1].start == Some(pos), "a positive lookaround keeps the body's captures");
            let mut ip: IP = 0;
            let mut p2 = pos;
            let resumed = m.try_backtrack(&input, &mut ip, &mut p2, Forward::new());
            assert!(!resumed && m.bts.len() == 1);
        } else {
            assert!(m.bts.len() == 1, "no record is left behind");
        }
        assert!(m.s.groups[1].start == old[1].start && m.s.groups[1].end == old[1].end, "captures of the body are restored (after backtracking past a kept positive lookaround, or immediately otherwise)");
        core::mem::forget(m);
        kani::cover!(true);
    }

    // @obligation name=e6_bt_lookaround_positive_match props=C01,C02 fn=classicalbacktrack::MatchAttempter::run_lookaround kind=bounded bound="2 groups, body owns group 1; inner attempt = oracle meeting try_at_pos's contract (succeeds, writes group 1); symbolic prior groups" min_checks=300 w=3 timeout=1500
    // Positive lookaround whose body matches: returns true, keeps the body's captures, and backtracking past it restores the
    // previous value of exactly those groups.
    #[kani::proof]
    #[kani::unwind(5)]
    #[kani::stub(MatchAttempter::try_at_pos, oracle_inner_attempt2)]
    fn e6_bt_lookaround_positive_match() {
        e6_small_body(false, true);
    }

    // @obligation name=e6_bt_lookaround_negative_match props=C01,C02 fn=classicalbacktrack::MatchAttempter::run_lookaround kind=bounded bound="2 groups, body owns group 1; inner attempt succeeds and writes group 1; negate = true" min_checks=300 w=3 timeout=1500
    // Negative lookaround whose body matches: returns false and the body's captures are discarded at once (atomic, no effect).
    #[kani::proof]
    #[kani::unwind(5)]
    #[kani::stub(MatchAttempter::try_at_pos, oracle_inner_attempt2)]
    fn e6_bt_lookaround_negative_match() {
        e6_small_body(true, true);
    }

    // @obligation name=e6_bt_lookaround_body_fails props=C01,C02 fn=classicalbacktrack::MatchAttempter::run_lookaround kind=bounded bound="2 groups; inner attempt fails; negate symbolic" min_checks=300 w=3 timeout=1500
    // Body fails: a positive lookaround fails, a negative one succeeds; groups and stack are exactly as before.
    #[kani::proof]
    #[kani::unwind(5)]
    #[kani::stub(MatchAttempter::try_at_pos, oracle_inner_attempt2)]
    fn e6_bt_lookaround_body_fails() {
        e6_small_body(kani::any(), false);
    }

    // =================================== E9: match construction ===================================

    // @obligation name=e9_bt_successful_match props=C06,C16,C02:t fn=classicalbacktrack::BacktrackExecutor::successful_match kind=bounded bound="3 capture groups with symbolic bounds on a 3-byte haystack" min_checks=300 w=2 timeout=900
    // successful_match: captures has one slot per group, slot i = offsets of group i iff both bounds are set (else None),
    // range = start..end offsets, and afterwards every group is cleared (a later attempt starts clean).
    #[kani::proof]
    #[kani::unwind(6)]
    fn e9_bt_successful_match() {
        let re = mk(vec![Insn::Goal], 0, 3, vec![]);
        let input = Utf8Input::new("abc", false);
        let mut ex = BacktrackExecutor { input, matcher: MatchAttempter::new(&re, input.left_end()) };
        let gs = [
            GroupData { start: any_opt_pos(&input, 3), end: any_opt_pos(&input, 3) },
            GroupData { start: any_opt_pos(&input, 3), end: any_opt_pos(&input, 3) },
            GroupData { start: any_opt_pos(&input, 3), end: any_opt_pos(&input, 3) },
        ];
        for i in 0..3 { ex.matcher.s.groups[i] = gs[i]; }
        let a: usize = kani::any();
        let z: usize = kani::any();
        kani::assume(a <= z && z <= 3);
        let m = ex.successful_match(input.left_end() + a, input.left_end() + z);
        assert!(m.range == (a..z));
        assert!(m.captures.len() == 3);
        for i in 0..3 {
            match (gs[i].start, gs[i].end) {
                (Some(s), Some(e)) => assert!(m.captures[i] == Some(input.pos_to_offset(s)..input.pos_to_offset(e))),
                _ => assert!(m.captures[i].is_none()),
            }
            assert!(ex.matcher.s.groups[i].start.is_none() && ex.matcher.s.groups[i].end.is_none());
        }
        assert!(m.group_names.len() == 0);
        kani::cover!(m.captures[1].is_some() && m.captures[2].is_none());
    }

    // =================================== F: search drivers ===================================
    // The interpreter call is replaced by an oracle: an arbitrary deterministic table res[offset] -> Option<end>
    // meeting try_at_pos's contract (start <= end <= len, end on a boundary). What is proved about the drivers is
    // therefore independent of the pattern.

    pub(crate) static mut ORACLE: [Option<usize>; 5] = [None; 5];
    pub(crate) static mut LOG: [usize; 12] = [0; 12];
    pub(crate) static mut LOG_N: usize = 0;

    pub(crate) fn oracle_try_at_pos<'a, Input: InputIndexer, Dir: Direction>(
        _this: &mut MatchAttempter<'a, Input>, inp: Input, ip: IP, pos: Input::Position, _dir: Dir,
    ) -> Option<Input::Position> where 'a: 'a {
        assert!(ip == 0 && Dir::FORWARD);
        let off = inp.pos_to_offset(pos);
        unsafe {
            assert!(LOG_N < 12);
            LOG[LOG_N] = off;
            LOG_N += 1;
            match ORACLE[off] {
                Some(e) => Some(inp.left_end() + e),
                None => None,
            }
        }
    }

    /// Contract stub of successful_match for the driver obligations (its own contract is e9_bt_successful_match):
    /// the reported range is start..end as offsets. Built without heap allocation: Kani's free() model trips on the
    /// zero-length boxed slices a Match of a group-less regex carries.
    pub(crate) fn sm_stub<'r, Input: InputIndexer>(
        this: &mut BacktrackExecutor<'r, Input>, start: Input::Position, end: Input::Position,
    ) -> Match where 'r: 'r {
        Match {
            range: this.input.pos_to_offset(start)..this.input.pos_to_offset(end),
            captures: Vec::new(),
            group_names: Box::new([]),
        }
    }

    /// Concrete 3-char haystacks (the oracle makes the text irrelevant except for its char boundaries):
    /// "abc" (boundaries 0,1,2,3) or "a\u{e9}b" (4 bytes, boundaries 0,1,3,4). Returns (buf, len, is_boundary[]).
    fn driver_hay_of(two: bool) -> ([u8; 4], usize, [bool; 5]) {
        if two {
            ([b'a', 0xC3, 0xA9, b'b'], 4, [true, true, false, true, true])
        } else {
            ([b'a', b'b', b'c', 0], 3, [true, true, true, true, false])
        }
    }
    fn driver_hay() -> ([u8; 4], usize, [bool; 5]) {
        driver_hay_of(true)
    }

    pub(crate) fn init_oracle(len: usize, bnd: &[bool; 5]) {
        for i in 0..5 {
            let r: Option<usize> = kani::any();
            if let Some(e) = r { kani::assume(i <= e && e <= len && bnd[e]); }
            unsafe { ORACLE[i] = if i <= len && bnd[i] { r } else { None }; }
        }
        unsafe { LOG_N = 0; }
    }

    pub(crate) fn next_boundary(p: usize, len: usize, bnd: &[bool; 5]) -> Option<usize> {
        let mut q = p + 1;
        while q <= len {
            if bnd[q] { return Some(q); }
            q += 1;
        }
        None
    }

    fn f1_body(use_bitmap: bool) {
        let (buf, len, bnd) = driver_hay();
        let text = unsafe { core::str::from_utf8_unchecked(&buf[..len]) };
        let input = Utf8Input::new(text, false);
        let re = mk(vec![Insn::Goal], 0, 0, vec![]);
        init_oracle(len, &bnd);
        let admit: u8 = kani::any();
        // precondition established by startpredicate.rs: a prefilter admits only bytes that start a character
        kani::assume(admit < 0x80 || admit >= 0xC0);
        let bm = bytesearch::ByteBitmap::new(&[admit]);
        let start: usize = kani::any();
        kani::assume(start <= len && bnd[start]);
        let mut ex = BacktrackExecutor { input, matcher: MatchAttempter::new(&re, input.left_end()) };
        let mut next: Option<Pos> = None;
        let m = if use_bitmap {
            ex.next_match_with_prefix_search(input.left_end() + start, &mut next, &bm)
        } else {
            ex.next_match_with_prefix_search(input.left_end() + start, &mut next, &bytesearch::EmptyString {})
        };
        let got = m.as_ref().map(|m| (m.range.start, m.range.end));
        core::mem::forget(m);
        core::mem::forget(ex);
        // spec: scan boundaries p >= start in order; admitted(p) = EmptyString or (p < len and buf[p] == admit)
        let mut expect: Option<(usize, usize)> = None;
        let mut p = start;
        loop {
            let admitted = if use_bitmap { p < len && buf[p] == admit } else { true };
            if admitted {
                if let Some(e) = unsafe { ORACLE[p] } { expect = Some((p, e)); break; }
            }
            match next_boundary(p, len, &bnd) { Some(q) => p = q, None => break }
        }
        assert!(got == expect, "driver result = first success of the exhaustive ordered scan over admitted offsets");
        if let Some((p, e)) = expect {
            let ns = next.map(|q| input.pos_to_offset(q));
            if e != p { assert!(ns == Some(e)); } else { assert!(ns == next_boundary(e, len, &bnd)); }
        }
        unsafe {
            let mut i = 0;
            while i < LOG_N {
                assert!(LOG[i] >= start && LOG[i] <= len && bnd[LOG[i]], "attempt on a char boundary >= start");
                if use_bitmap { assert!(LOG[i] < len && buf[LOG[i]] == admit, "attempt only where the prefilter admits"); }
                if i > 0 { assert!(LOG[i - 1] < LOG[i], "attempts strictly increase"); }
                i += 1;
            }
        }
        kani::cover!(got.is_some() && len == 4);
        kani::cover!(got.is_none());
    }

    // @obligation name=f1_bt_driver_bitmap_search props=C04,C09:t,C01:t,C06:t fn=classicalbacktrack::BacktrackExecutor::next_match_with_prefix_search kind=bounded bound="haystack of 3 chars (3-4 bytes, one optional 2-byte char), every start boundary; prefilter = ByteBitmap of one symbolic lead byte; interpreter = oracle" min_checks=500 w=3 timeout=1500
    // next_match_with_prefix_search with a bitmap prefilter: attempts are made at strictly increasing char boundaries >= start
    // and only at offsets the prefilter admits; the result is the first admitted offset where the oracle succeeds;
    // next_start = end for a non-empty match, else the boundary after end (None at the end of input).
    #[kani::proof]
    #[kani::unwind(7)]
    #[kani::stub(MatchAttempter::try_at_pos, oracle_try_at_pos)]
    #[kani::stub(BacktrackExecutor::successful_match, sm_stub)]
    fn f1_bt_driver_bitmap_search() {
        f1_body(true);
    }

    // @obligation name=f1_bt_driver_exhaustive_search props=C04,C09,C01:t,C06:t fn=classicalbacktrack::BacktrackExecutor::next_match_with_prefix_search kind=bounded bound="haystack of 3 chars (3-4 bytes, one optional 2-byte char), every start boundary; prefilter = EmptyString (Arbitrary); interpreter = oracle" min_checks=500 w=3 timeout=1500
    // next_match_with_prefix_search with the trivial prefilter attempts every char boundary >= start in increasing order and
    // returns the first success: this is the reference scan the prefiltered searches are compared with.
    #[kani::proof]
    #[kani::unwind(7)]
    #[kani::stub(MatchAttempter::try_at_pos, oracle_try_at_pos)]
    #[kani::stub(BacktrackExecutor::successful_match, sm_stub)]
    fn f1_bt_driver_exhaustive_search() {
        f1_body(false);
    }

    // @obligation name=f2_bt_driver_anchored props=C04,C09,C06 fn=classicalbacktrack::BacktrackExecutor::next_match_anchored,classicalbacktrack::BacktrackExecutor::next_match kind=bounded bound="haystack of 3 chars (3-4 bytes), every start boundary; interpreter = oracle; start_pred = StartAnchored" min_checks=300 w=2 timeout=900
    // With a StartAnchored predicate next_match makes exactly one attempt, at the given position, and reports it.
    #[kani::proof]
    #[kani::unwind(7)]
    #[kani::stub(MatchAttempter::try_at_pos, oracle_try_at_pos)]
    #[kani::stub(BacktrackExecutor::successful_match, sm_stub)]
    fn f2_bt_driver_anchored() {
        use crate::exec::MatchProducer;
        let (buf, len, bnd) = driver_hay();
        let text = unsafe { core::str::from_utf8_unchecked(&buf[..len]) };
        let input = Utf8Input::new(text, false);
        let re = mk(vec![Insn::Goal], 0, 0, vec![]);
        re.start_pred = StartPredicate::StartAnchored;
        init_oracle(len, &bnd);
        let start: usize = kani::any();
        kani::assume(start <= len && bnd[start]);
        let mut ex = BacktrackExecutor { input, matcher: MatchAttempter::new(&re, input.left_end()) };
        let mut next: Option<Pos> = None;
        let m = ex.next_match(input.left_end() + start, &mut next);
        let found = m.is_some();
        let got = m.as_ref().map(|m| (m.range.start, m.range.end));
        core::mem::forget(m);
        core::mem::forget(ex);
        unsafe {
            assert!(LOG_N == 1 && LOG[0] == start);
            assert!(got == ORACLE[start].map(|e| (start, e)));
            if let Some(e) = ORACLE[start] {
                let ns = next.map(|q| input.pos_to_offset(q));
                if e != start { assert!(ns == Some(e)); } else { assert!(ns == next_boundary(e, len, &bnd)); }
            }
        }
        kani::cover!(found);
    }

    fn f3_body(two: bool) {
        let (_buf, len, bnd) = driver_hay_of(two);
        let text: &'static str = if two { "a\u{e9}b" } else { "abc" };
        let input = Utf8Input::new(text, false);
        let re = mk(vec![Insn::Goal], 0, 0, vec![]);
        init_oracle(len, &bnd);
        // (1) Matches::new: the cursor is `start` if start <= len, otherwise there is no cursor
        let start: usize = kani::any();
        kani::assume(start <= len + 1 && (start > len || bnd[start]));
        let ex = BacktrackExecutor { input, matcher: MatchAttempter::new(&re, input.left_end()) };
        let mut it = crate::exec::Matches::new(ex, start);
        assert!(crate::exec::__verif::cursor(&it).map(|p| input.pos_to_offset(p)) == if start <= len { Some(start) } else { None });
        // (2) inductive step: from ANY cursor (a boundary, or exhausted) one call of next() returns the first match at or
        // after the cursor and moves the cursor to its end (one character further after an empty match)
        let cur: usize = kani::any();
        kani::assume(cur <= len + 1 && (cur > len || bnd[cur]));
        crate::exec::__verif::set_cursor(&mut it, if cur <= len { Some(input.left_end() + cur) } else { None });
        let gm = it.next();
        let got = gm.as_ref().map(|m| (m.range.start, m.range.end));
        core::mem::forget(gm);
        let mut expect: Option<(usize, usize)> = None;
        if cur <= len {
            let mut p = cur;
            loop {
                if let Some(e) = unsafe { ORACLE[p] } { expect = Some((p, e)); break; }
                match next_boundary(p, len, &bnd) { Some(q) => p = q, None => break }
            }
        }
        assert!(got == expect, "next() = first match at or after the cursor");
        let newcur = crate::exec::__verif::cursor(&it).map(|p| input.pos_to_offset(p));
        match expect {
            Some((p, e)) => {
                assert!(newcur == if e != p { Some(e) } else { next_boundary(e, len, &bnd) }, "cursor advance rule");
                // progress: the new cursor is strictly beyond the old one, or the iterator is exhausted
                if let Some(n) = newcur { assert!(n > cur && bnd[n]); }
            }
            None => {
                // exhausted cursors stay exhausted (None is sticky)
                if cur > len { assert!(newcur.is_none()); }
            }
        }
        core::mem::forget(it);
        kani::cover!(start > len);
        kani::cover!(expect.is_some() && newcur.is_none());
        kani::cover!(expect.is_none() && cur <= len);
    }

    // @obligation name=f3_bt_matches_iteration_ascii props=C09,C06:t fn=exec::Matches::new,exec::Matches::next,classicalbacktrack::BacktrackExecutor::next_match,classicalbacktrack::BacktrackExecutor::initial_position kind=bounded bound="haystack \"abc\", every start offset 0..=len+1 for new(); ONE call of next() from every cursor state (inductive step); interpreter = arbitrary deterministic oracle" min_checks=500 w=3 timeout=1500
    // Matches::new sets the cursor to start (none if start > len); each next() returns the first match at or after the
    // cursor and sets cursor := end if non-empty else the next boundary after end. By induction over the calls the iterator
    // is the unfold of that rule: increasing non-overlapping ranges, at most chars+1 matches, None sticky.
    #[kani::proof]
    #[kani::unwind(7)]
    #[kani::stub(MatchAttempter::try_at_pos, oracle_try_at_pos)]
    #[kani::stub(BacktrackExecutor::successful_match, sm_stub)]
    fn f3_bt_matches_iteration_ascii() {
        f3_body(false);
    }

    // @obligation name=f3_bt_matches_iteration_multibyte props=C09,C06:t fn=exec::Matches::new,exec::Matches::next,classicalbacktrack::BacktrackExecutor::next_match kind=bounded bound="haystack \"a\u{e9}b\" (a 2-byte char in the middle), every start boundary and len+1 for new(); ONE call of next() from every cursor state (inductive step); interpreter = arbitrary deterministic oracle" min_checks=500 w=3 timeout=1500
    // The same unfold specification when advancing past an empty match must skip a whole multi-byte character.
    #[kani::proof]
    #[kani::unwind(7)]
    #[kani::stub(MatchAttempter::try_at_pos, oracle_try_at_pos)]
    #[kani::stub(BacktrackExecutor::successful_match, sm_stub)]
    fn f3_bt_matches_iteration_multibyte() {
        f3_body(true);
    }
}
