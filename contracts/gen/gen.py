#!/usr/bin/env python3
"""Emit contracts/classicalbacktrack.kani.rs and contracts/pikevm.kani.rs from the hand-written head/tail parts plus
the mechanically repeated per-length ByteSeqN harnesses. Output is committed; this script is not run by the checks."""
import os
HERE = os.path.dirname(os.path.abspath(__file__))
OUT = os.path.dirname(HERE)

BYTESEQ_BT = '''
    // @obligation name=e2_bt_byteseq{n} props={props} fn=classicalbacktrack::MatchAttempter::try_at_pos,cursor::try_match_lit,indexing::Utf8Input::match_bytes kind=bounded bound="ASCII haystack of {hl} symbolic bytes, every offset, both directions; operand: {n} symbolic bytes" min_checks=1000 w=2 timeout=900
    // [ByteSeq{n}(bytes), Goal]: forward, succeeds iff the next {n} bytes equal the operand and ends {n} bytes later;
    // backward, the previous {n} bytes, ending {n} bytes earlier; fails when fewer than {n} bytes remain.
    #[kani::proof]
    #[kani::unwind({uw})]
    #[kani::stub(MatchAttempter::run_lookaround, no_lookaround)]
    #[kani::stub(MatchAttempter::run_scm_loop, no_scm_loop)]
    #[kani::stub(MatchAttempter::run_loop, no_run_loop)]
    fn e2_bt_byteseq{n}() {{
        let b: [u8; {hl}] = kani::any();
        let mut i = 0;
        while i < {hl} {{ kani::assume(b[i] < 128); i += 1; }}
        let text = unsafe {{ core::str::from_utf8_unchecked(&b) }};
        let lit: [u8; {n}] = kani::any();
        let off: usize = kani::any();
        kani::assume(off <= {hl});
        let fwd: bool = kani::any();
        let re = mk(vec![Insn::ByteSeq{n}(lit), Insn::Goal], 0, 0, vec![]);
        let got = exec(&re, text, off, fwd);
        let fits = if fwd {{ off + {n} <= {hl} }} else {{ off >= {n} }};
        let base = if fwd {{ off }} else {{ off.wrapping_sub({n}) }};
        let mut eq = fits;
        let mut i = 0;
        while i < {n} {{
            if fits && b[base + i] != lit[i] {{ eq = false; }}
            i += 1;
        }}
        assert!(got == if eq {{ Some(if fwd {{ off + {n} }} else {{ off - {n} }}) }} else {{ None }});
        kani::cover!(got.is_some() && fwd);
        kani::cover!(got.is_some() && !fwd);
        kani::cover!(got.is_none() && fits);
    }}
'''

def main():
    head = open(os.path.join(HERE, "classicalbacktrack_head.rs")).read()
    tail = open(os.path.join(HERE, "classicalbacktrack_tail.rs")).read()
    mid = ""
    quick = {1, 2, 4, 16}
    for n in range(1, 17):
        props = "C01,C02,C06" if n in quick else "C01:t,C02:t,C06:t"
        mid += BYTESEQ_BT.format(n=n, hl=n + 1, uw=n + 3, props=props)
    with open(os.path.join(OUT, "classicalbacktrack.kani.rs"), "w") as f:
        f.write(head + mid + tail)

if __name__ == "__main__":
    main()
