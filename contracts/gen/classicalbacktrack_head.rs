// Contracts for src/classicalbacktrack.rs: loop decision (E1), per-instruction step contracts (E2),
// undo discipline (E3), backtrack records (E4), single-char loops (E5), lookaround (E6), match construction (E9),
// search drivers (F). Spec functions: crate::matchers::__verif::spec (written from ECMA-262, not from this code).
// GENERATED PARTS: the e2_bt_byteseq* harnesses are emitted by contracts/gen/gen.py (static text, committed).
#[cfg(kani)]
pub(crate) mod __verif {
    use super::*;
    use crate::api::Flags;
    use crate::insn::StartPredicate;
    use crate::matchers::__verif::spec::*;
    use crate::types::BracketContents;

    /// Build a program. The value is leaked on purpose: dropping harness-built regexes at the end of a proof only
    /// exercises CBMC's free() model (and trips it on zero-length boxed slices), it says nothing about the code under test.
    pub(crate) fn mk(insns: Vec<Insn>, loops: u32, groups: u32, brackets: Vec<BracketContents>) -> &'static mut CompiledRegex {
        Box::leak(Box::new(mk_owned(insns, loops, groups, brackets)))
    }

    /// read access to the executor's private input field for contract stubs in other modules
    pub(crate) fn input_of<'r, I: InputIndexer>(e: &BacktrackExecutor<'r, I>) -> I {
        e.input
    }

    pub(crate) fn mk_owned(insns: Vec<Insn>, loops: u32, groups: u32, brackets: Vec<BracketContents>) -> CompiledRegex {
        CompiledRegex {
            insns,
            brackets,
            start_pred: StartPredicate::Arbitrary,
            loops,
            groups,
            group_names: Vec::new().into_boxed_slice(),
            flags: Flags::default(),
        }
    }

    type Pos<'a> = <Utf8Input<'a> as InputIndexer>::Position;

    fn any_opt_pos<'a>(input: &Utf8Input<'a>, n: usize) -> Option<Pos<'a>> {
        if kani::any() {
            let k: usize = kani::any();
            kani::assume(k <= n);
            Some(input.left_end() + k)
        } else {
            None
        }
    }

    // ---- stubs that cut arms a micro-program cannot reach (reaching one fails the harness: sound) ----
    fn no_lookaround<'a, Input: InputIndexer, Dir: Direction>(
        _this: &mut MatchAttempter<'a, Input>, _input: &Input, _ip: IP, _pos: Input::Position,
        _start_group: CaptureGroupID, _end_group: CaptureGroupID, _negate: bool,
    ) -> bool where 'a: 'a {
        panic!("lookaround unreachable in this program")
    }
    fn no_scm_loop<'a, Input: InputIndexer, Dir: Direction>(
        _this: &mut MatchAttempter<'a, Input>, _input: &Input, _dir: Dir, _pos: &mut Input::Position,
        _min: usize, _max: usize, _ip: IP, _greedy: bool,
    ) -> Option<IP> where 'a: 'a {
        panic!("Loop1CharBody unreachable in this program")
    }
    fn no_run_loop<'a, Input: InputIndexer>(
        _this: &mut MatchAttempter<'a, Input>, _lf: &'a LoopFields, _pos: Input::Position, _ip: IP,
    ) -> Option<IP> where 'a: 'a {
        panic!("EnterLoop/LoopAgain unreachable in this program")
    }

    /// Contract of try_backtrack for the record kinds a one-instruction program can push: data records are applied
    /// and popped; a SetPosition choice point is popped and resumed. Used as the stub of try_backtrack in the arm-level
    /// E2/E3 obligations; that the real try_backtrack satisfies it is obligation e4_bt_records_data (assume-guarantee
    /// between E3 and E4). The resume target is *asserted* to be the value the harness expects (EXP_IP/EXP_OFF) and
    /// the constant is used afterwards, so that the dispatch loop never sees a heap-read instruction pointer
    /// (CBMC would otherwise explore all 40 instruction arms); EXP_IP == usize::MAX means "no choice point expected".
    static mut EXP_IP: usize = usize::MAX;
    static mut EXP_OFF: usize = 0;
    static mut RESUMED: u32 = 0;
    fn spec_backtrack<'a, Input: InputIndexer, Dir: Direction>(
        this: &mut MatchAttempter<'a, Input>, input: &Input, ip: &mut IP, pos: &mut Input::Position, _dir: Dir,
    ) -> bool where 'a: 'a {
        loop {
            match this.bts.last() {
                None | Some(BacktrackInsn::Exhausted) => return false,
                Some(&BacktrackInsn::SetPosition { ip: i, pos: p }) => {
                    unsafe {
                        assert!(EXP_IP != usize::MAX, "no choice point expected in this program");
                        assert!(i == EXP_IP, "choice point resumes at the expected instruction");
                        assert!(input.pos_to_offset(p) == EXP_OFF, "choice point resumes at the expected position");
                        *ip = EXP_IP;
                        *pos = input.left_end() + EXP_OFF;
                        RESUMED += 1;
                    }
                    this.bts.pop();
                    return true;
                }
                Some(&BacktrackInsn::SetLoopData { id, data }) => {
                    this.s.loops[id as usize] = data;
                    this.bts.pop();
                }
                Some(&BacktrackInsn::SetCaptureGroup { id, data }) => {
                    this.s.groups[id as usize] = data;
                    this.bts.pop();
                }
                _ => panic!("this program pushes no loop choice records"),
            }
        }
    }

    /// Run program `re` from byte offset `off` of `text` with the backtracker; returns the end offset.
    fn exec_utf8<Dir: Direction>(re: &CompiledRegex, text: &str, unicode: bool, off: usize) -> Option<usize> {
        let input = Utf8Input::new(text, unicode);
        let mut m = MatchAttempter::<Utf8Input>::new(re, input.left_end());
        // pre-size the backtrack stack: a push that reallocates inside the attempt trips CBMC's realloc/free model
        m.bts.reserve(7);
        let r = m.try_at_pos(input, 0, input.left_end() + off, Dir::new());
        // interface invariant of try_at_pos: the backtrack stack is back to its backstop
        assert!(m.bts.len() == 1);
        r.map(|p| input.pos_to_offset(p))
    }
    fn exec(re: &CompiledRegex, text: &str, off: usize, fwd: bool) -> Option<usize> {
        if fwd { exec_utf8::<Forward>(re, text, false, off) } else { exec_utf8::<Backward>(re, text, false, off) }
    }
    fn exec_ascii(re: &CompiledRegex, text: &str, off: usize, fwd: bool) -> Option<usize> {
        let input = AsciiInput::new(text, false);
        let mut m = MatchAttempter::<AsciiInput>::new(re, input.left_end());
        let r = if fwd {
            m.try_at_pos(input, 0, input.left_end() + off, Forward::new())
        } else {
            m.try_at_pos(input, 0, input.left_end() + off, Backward::new())
        };
        r.map(|p| input.pos_to_offset(p))
    }

    // =================================== E1: loop decision ===================================

    // @obligation name=e1_bt_run_loop_decision props=C01,C02,C05 fn=classicalbacktrack::MatchAttempter::run_loop kind=complete domain="every iters<usize::MAX, every min<=max, greedy, entry and pos anywhere in a 2-byte haystack" min_checks=300
    // run_loop returns the ES RepeatMatcher decision: None iff the step fails (no viable arm, or an empty iteration
    // past min); the exit ip iff exit is the first viable arm; ip+1 iff entering is, and then iters' = iters+1 and
    // entry' = pos; on exit iters is unchanged.
    #[kani::proof]
    #[kani::unwind(3)]
    fn e1_bt_run_loop_decision() {
        let min: usize = kani::any();
        let max: usize = kani::any();
        kani::assume(min <= max);
        let greedy: bool = kani::any();
        let re = mk(
            vec![
                Insn::EnterLoop(LoopFields { loop_id: 0, min_iters: min, max_iters: max, greedy, exit: 3 }),
                Insn::JustFail,
                Insn::LoopAgain { begin: 0 },
                Insn::Goal,
            ],
            1, 0, vec![],
        );
        let input = Utf8Input::new("ab", false);
        let mut m = MatchAttempter::<Utf8Input>::new(&re, input.left_end());
        let iters: usize = kani::any();
        let e: usize = kani::any();
        let p: usize = kani::any();
        kani::assume(e <= 2 && p <= 2);
        kani::assume(iters < usize::MAX);
        m.s.loops[0] = LoopData { iters, entry: input.left_end() + e };
        let fields = match &re.insns[0] { Insn::EnterLoop(f) => f, _ => unreachable!() };
        let r = m.run_loop(fields, input.left_end() + p, 0);
        match es_loop_step(iters, e == p, min, max, greedy) {
            LoopStep::Fail => assert!(r.is_none()),
            LoopStep::ExitOnly | LoopStep::ExitThenEnter => {
                assert!(r == Some(3));
                assert!(m.s.loops[0].iters == iters);
            }
            LoopStep::EnterOnly | LoopStep::EnterThenExit => {
                assert!(r == Some(1));
                assert!(m.s.loops[0].iters == iters + 1);
                assert!(m.s.loops[0].entry == input.left_end() + p);
            }
        }
        kani::cover!(r.is_none() && iters > min && iters < max);
        kani::cover!(r == Some(1) && greedy && iters >= min);
        kani::cover!(r == Some(3) && !greedy && iters < max);
    }

    fn fresh_stack<'a>(m: &mut MatchAttempter<'a, Utf8Input<'a>>) {
        // a stack that will not reallocate (keeps CBMC's view of the backstop record constant)
        let mut v = Vec::with_capacity(8);
        v.push(BacktrackInsn::Exhausted);
        m.bts = v;
    }

    /// Shared body of the E3b obligations; `want` selects the ES decision the harness covers.
    fn e3b_body(want: LoopStep) {
        let min: usize = kani::any();
        let max: usize = kani::any();
        kani::assume(min <= max);
        let greedy: bool = kani::any();
        let re = mk(
            vec![
                Insn::EnterLoop(LoopFields { loop_id: 0, min_iters: min, max_iters: max, greedy, exit: 3 }),
                Insn::JustFail,
                Insn::LoopAgain { begin: 0 },
                Insn::Goal,
            ],
            1, 0, vec![],
        );
        let input = Utf8Input::new("ab", false);
        let mut m = MatchAttempter::<Utf8Input>::new(&re, input.left_end());
        let iters: usize = kani::any();
        let e: usize = kani::any();
        let p: usize = kani::any();
        kani::assume(e <= 2 && p <= 2);
        kani::assume(iters < usize::MAX);
        let step = es_loop_step(iters, e == p, min, max, greedy);
        kani::assume(step == want);
        let old = LoopData { iters, entry: input.left_end() + e };
        m.s.loops[0] = old;
        let fields = match &re.insns[0] { Insn::EnterLoop(f) => f, _ => unreachable!() };
        let pos0 = input.left_end() + p;
        let _r = m.run_loop(fields, pos0, 0);
        let mut ip: IP = 77;
        let mut pos = input.left_end();
        let resumed = m.try_backtrack(&input, &mut ip, &mut pos, Forward::new());
        match want {
            LoopStep::Fail | LoopStep::ExitOnly | LoopStep::EnterOnly => {
                assert!(!resumed, "no alternative arm exists");
                assert!(m.s.loops[0].iters == old.iters && m.s.loops[0].entry == old.entry, "loop data restored");
            }
            LoopStep::EnterThenExit => {
                assert!(resumed && ip == 3 && pos == pos0, "greedy: the alternative is the exit arm at the same position");
                assert!(m.s.loops[0].iters == old.iters && m.s.loops[0].entry == old.entry, "loop data restored");
            }
            LoopStep::ExitThenEnter => {
                assert!(resumed && ip == 1 && pos == pos0, "lazy: the alternative is one more iteration from the same position");
                assert!(m.s.loops[0].iters == old.iters + 1 && m.s.loops[0].entry == pos0);
                // ... and giving that up too restores the loop data
                assert!(!m.try_backtrack(&input, &mut ip, &mut pos, Forward::new()));
                assert!(m.s.loops[0].iters == old.iters && m.s.loops[0].entry == old.entry, "loop data restored");
            }
        }
        assert!(m.bts.len() == 1);
        kani::cover!(true);
    }

    // @obligation name=e3b_bt_run_loop_undo_fail props=C01:t,C02:t,C05:t fn=classicalbacktrack::MatchAttempter::run_loop,classicalbacktrack::MatchAttempter::try_backtrack,classicalbacktrack::MatchAttempter::prepare_to_enter_loop kind=complete domain="every iters<usize::MAX, min<=max, greedy, entry/pos in a 2-byte haystack for which ES prescribes this decision" min_checks=300 w=4 timeout=2400
    // Undo discipline of run_loop when no arm is viable (or an empty iteration past min): nothing is pushed and nothing changes.
    #[kani::proof]
    #[kani::unwind(4)]
    fn e3b_bt_run_loop_undo_fail() {
        e3b_body(LoopStep::Fail);
    }

    // @obligation name=e3b_bt_run_loop_undo_exit_only props=C01:t,C02:t,C05:t fn=classicalbacktrack::MatchAttempter::run_loop,classicalbacktrack::MatchAttempter::try_backtrack,classicalbacktrack::MatchAttempter::prepare_to_enter_loop kind=complete domain="every iters<usize::MAX, min<=max, greedy, entry/pos in a 2-byte haystack for which ES prescribes this decision" min_checks=300 w=4 timeout=2400
    // Undo discipline of run_loop when only the exit arm is viable: nothing is pushed, the loop data is unchanged.
    #[kani::proof]
    #[kani::unwind(4)]
    fn e3b_bt_run_loop_undo_exit_only() {
        e3b_body(LoopStep::ExitOnly);
    }

    // @obligation name=e3b_bt_run_loop_undo_enter_only props=C01:t,C02:t,C05:t fn=classicalbacktrack::MatchAttempter::run_loop,classicalbacktrack::MatchAttempter::try_backtrack,classicalbacktrack::MatchAttempter::prepare_to_enter_loop kind=complete domain="every iters<usize::MAX, min<=max, greedy, entry/pos in a 2-byte haystack for which ES prescribes this decision" min_checks=300 w=4 timeout=2400
    // Undo discipline of run_loop when only entering is viable: one undo record; replaying it restores the loop data and finds no alternative.
    #[kani::proof]
    #[kani::unwind(4)]
    fn e3b_bt_run_loop_undo_enter_only() {
        e3b_body(LoopStep::EnterOnly);
    }

    // @obligation name=e3b_bt_run_loop_undo_greedy props=C01:t,C02,C05 fn=classicalbacktrack::MatchAttempter::run_loop,classicalbacktrack::MatchAttempter::try_backtrack kind=complete domain="every iters, min<=iters<max, greedy, entry/pos in a 2-byte haystack" min_checks=300 w=3 timeout=1200
    // Greedy loop with both arms viable: backtracking resumes at the exit ip at the same position with the loop data restored.
    #[kani::proof]
    #[kani::unwind(4)]
    fn e3b_bt_run_loop_undo_greedy() {
        e3b_body(LoopStep::EnterThenExit);
    }

    // @obligation name=e3b_bt_run_loop_undo_lazy props= fn=classicalbacktrack::MatchAttempter::run_loop,classicalbacktrack::MatchAttempter::try_backtrack kind=complete domain="every iters, min<=iters<max, lazy, entry/pos in a 2-byte haystack" min_checks=300 w=5 timeout=3000
    // Lazy loop with both arms viable: backtracking enters the loop (iters+1, entry=pos) from the same position; giving
    // that up as well restores the loop data (entry included, #131).
    #[kani::proof]
    #[kani::unwind(4)]
    fn e3b_bt_run_loop_undo_lazy() {
        e3b_body(LoopStep::ExitThenEnter);
    }

    // =================================== E2: step contracts ===================================

    // @obligation name=e2_bt_char props=C01,C02,C06 fn=classicalbacktrack::MatchAttempter::try_at_pos,scm::Char::matches,cursor::next kind=bounded bound="2-char haystack (every pair of chars), every boundary, both directions; operand: every u32" min_checks=1000 w=2 timeout=900
    // [Char(c), Goal]: consumes exactly one character in the direction of travel and succeeds iff it is c.
    #[kani::proof]
    #[kani::unwind(4)]
    #[kani::stub(MatchAttempter::run_lookaround, no_lookaround)]
    #[kani::stub(MatchAttempter::run_scm_loop, no_scm_loop)]
    #[kani::stub(MatchAttempter::run_loop, no_run_loop)]
    fn e2_bt_char() {
        let h = Hay::any();
        let k = Hay::any_boundary();
        let fwd: bool = kani::any();
        let c: u32 = kani::any();
        let re = mk(vec![Insn::Char(c), Insn::Goal], 0, 0, vec![]);
        let got = exec(&re, h.text(), h.off(k), fwd);
        assert!(got == es_consume(&h, k, fwd, |x| x == c));
        kani::cover!(got.is_some() && !fwd && h.n1 == 3);
        kani::cover!(got.is_none() && k == 1);
    }

    // @obligation name=e2_bt_charset props=C01,C02,C10:t fn=classicalbacktrack::MatchAttempter::try_at_pos,scm::CharSet::matches kind=bounded bound="2-char haystack (every pair of chars), every boundary, both directions; operand: every [u32;4]" min_checks=1000 w=2 timeout=900
    // [CharSet(set), Goal]: consumes one character and succeeds iff it is one of the four entries.
    #[kani::proof]
    #[kani::unwind(6)]
    #[kani::stub(MatchAttempter::run_lookaround, no_lookaround)]
    #[kani::stub(MatchAttempter::run_scm_loop, no_scm_loop)]
    #[kani::stub(MatchAttempter::run_loop, no_run_loop)]
    fn e2_bt_charset() {
        let h = Hay::any();
        let k = Hay::any_boundary();
        let fwd: bool = kani::any();
        let set: [u32; 4] = kani::any();
        let re = mk(vec![Insn::CharSet(set), Insn::Goal], 0, 0, vec![]);
        let got = exec(&re, h.text(), h.off(k), fwd);
        assert!(got == es_consume(&h, k, fwd, |x| x == set[0] || x == set[1] || x == set[2] || x == set[3]));
        kani::cover!(got.is_some());
        kani::cover!(got.is_none() && k == 1);
    }

    // @obligation name=e2_bt_bracket props=C01,C02,C12 fn=classicalbacktrack::MatchAttempter::try_at_pos,scm::Bracket::matches,matchers::CharProperties::bracket kind=bounded bound="2-char haystack (every pair of chars), every boundary, both directions; operand: well-formed set of 2 symbolic intervals, invert symbolic" min_checks=1000 w=2 timeout=900
    // [Bracket(0), Goal]: consumes one character and succeeds iff (char in set) != invert.
    #[kani::proof]
    #[kani::unwind(5)]
    #[kani::stub(MatchAttempter::run_lookaround, no_lookaround)]
    #[kani::stub(MatchAttempter::run_scm_loop, no_scm_loop)]
    #[kani::stub(MatchAttempter::run_loop, no_run_loop)]
    fn e2_bt_bracket() {
        let h = Hay::any();
        let k = Hay::any_boundary();
        let fwd: bool = kani::any();
        let (cps, ivs, n) = crate::matchers::__verif::any_cps(2);
        let invert: bool = kani::any();
        let re = mk(vec![Insn::Bracket(0), Insn::Goal], 0, 0, vec![BracketContents { invert, cps }]);
        let got = exec(&re, h.text(), h.off(k), fwd);
        assert!(got == es_consume(&h, k, fwd, |x| in_ivs(&ivs[..n], x) != invert));
        kani::cover!(got.is_some() && invert);
        kani::cover!(got.is_some() && !invert);
    }

    // @obligation name=e2_bt_ascii_bracket props=C01,C02,C13:t fn=classicalbacktrack::MatchAttempter::try_at_pos,scm::MatchByteSet::matches,cursor::next_byte kind=bounded bound="2-char haystack (every pair of chars), every boundary, both directions; operand: every AsciiBitmap" min_checks=1000 w=2 timeout=900
    // [AsciiBracket(bm), Goal]: consumes one character and succeeds iff it is ASCII and its bit is set (a non-ASCII
    // character never matches and the position never ends inside a sequence on success).
    #[kani::proof]
    #[kani::unwind(4)]
    #[kani::stub(MatchAttempter::run_lookaround, no_lookaround)]
    #[kani::stub(MatchAttempter::run_scm_loop, no_scm_loop)]
    #[kani::stub(MatchAttempter::run_loop, no_run_loop)]
    fn e2_bt_ascii_bracket() {
        let h = Hay::any();
        let k = Hay::any_boundary();
        let fwd: bool = kani::any();
        let bits: [u8; 16] = kani::any();
        let re = mk(vec![Insn::AsciiBracket(crate::bytesearch::AsciiBitmap(bits)), Insn::Goal], 0, 0, vec![]);
        let got = exec(&re, h.text(), h.off(k), fwd);
        assert!(got == es_consume(&h, k, fwd, |x| x < 128 && (bits[(x >> 3) as usize] >> (x & 7)) & 1 == 1));
        kani::cover!(got.is_some() && !fwd);
        kani::cover!(got.is_none() && k == 1);
    }

    fn byteset_body(n: usize) {
        let h = Hay::any();
        let k = Hay::any_boundary();
        let fwd: bool = kani::any();
        let s: [u8; 4] = kani::any();
        kani::assume(s[0] < 128 && s[1] < 128 && s[2] < 128 && s[3] < 128);
        let insn = match n {
            2 => Insn::ByteSet2(crate::bytesearch::ByteArraySet([s[0], s[1]])),
            3 => Insn::ByteSet3(crate::bytesearch::ByteArraySet([s[0], s[1], s[2]])),
            _ => Insn::ByteSet4(crate::bytesearch::ByteArraySet(s)),
        };
        let re = mk(vec![insn, Insn::Goal], 0, 0, vec![]);
        let got = exec(&re, h.text(), h.off(k), fwd);
        let exp = es_consume(&h, k, fwd, |x| {
            x == s[0] as u32 || x == s[1] as u32 || (n >= 3 && x == s[2] as u32) || (n >= 4 && x == s[3] as u32)
        });
        assert!(got == exp);
        kani::cover!(got.is_some());
        kani::cover!(got.is_none() && k == 1);
    }

    // @obligation name=e2_bt_byteset2 props=C01,C02 fn=classicalbacktrack::MatchAttempter::try_at_pos,scm::MatchByteArraySet::matches kind=bounded bound="2-char haystack (every pair of chars), every boundary, both directions; operand: ASCII byte set of size 2 (precondition established by literal.rs: ByteSet only from all-ASCII CharSet)" min_checks=1000 w=2 timeout=900
    // [ByteSet2(set), Goal] (members < 128): consumes one character and succeeds iff it is a member.
    #[kani::proof]
    #[kani::unwind(4)]
    #[kani::stub(MatchAttempter::run_lookaround, no_lookaround)]
    #[kani::stub(MatchAttempter::run_scm_loop, no_scm_loop)]
    #[kani::stub(MatchAttempter::run_loop, no_run_loop)]
    fn e2_bt_byteset2() {
        byteset_body(2);
    }

    // @obligation name=e2_bt_byteset3 props=C01:t,C02:t fn=classicalbacktrack::MatchAttempter::try_at_pos,scm::MatchByteArraySet::matches kind=bounded bound="2-char haystack (every pair of chars), every boundary, both directions; operand: ASCII byte set of size 3 (precondition established by literal.rs: ByteSet only from all-ASCII CharSet)" min_checks=1000 w=2 timeout=900
    // [ByteSet3(set), Goal] (members < 128): consumes one character and succeeds iff it is a member.
    #[kani::proof]
    #[kani::unwind(4)]
    #[kani::stub(MatchAttempter::run_lookaround, no_lookaround)]
    #[kani::stub(MatchAttempter::run_scm_loop, no_scm_loop)]
    #[kani::stub(MatchAttempter::run_loop, no_run_loop)]
    fn e2_bt_byteset3() {
        byteset_body(3);
    }

    // @obligation name=e2_bt_byteset4 props=C01,C02 fn=classicalbacktrack::MatchAttempter::try_at_pos,scm::MatchByteArraySet::matches kind=bounded bound="2-char haystack (every pair of chars), every boundary, both directions; operand: ASCII byte set of size 4 (precondition established by literal.rs: ByteSet only from all-ASCII CharSet)" min_checks=1000 w=2 timeout=900
    // [ByteSet4(set), Goal] (members < 128): consumes one character and succeeds iff it is a member.
    #[kani::proof]
    #[kani::unwind(4)]
    #[kani::stub(MatchAttempter::run_lookaround, no_lookaround)]
    #[kani::stub(MatchAttempter::run_scm_loop, no_scm_loop)]
    #[kani::stub(MatchAttempter::run_loop, no_run_loop)]
    fn e2_bt_byteset4() {
        byteset_body(4);
    }

    fn match_any_body(dotall: bool) {
        let h = Hay::any();
        let k = Hay::any_boundary();
        let fwd: bool = kani::any();
        let re = mk(vec![if dotall { Insn::MatchAny } else { Insn::MatchAnyExceptLineTerminator }, Insn::Goal], 0, 0, vec![]);
        let got = exec(&re, h.text(), h.off(k), fwd);
        assert!(got == es_consume(&h, k, fwd, |x| dotall || !es_is_line_terminator(x)));
        kani::cover!(got.is_none());
        kani::cover!(got.is_some());
    }

    // @obligation name=e2_bt_match_any props=C01,C02 fn=classicalbacktrack::MatchAttempter::try_at_pos,scm::MatchAny::matches kind=bounded bound="2-char haystack (every pair of chars), every boundary, both directions" min_checks=1000 w=2 timeout=900
    // [MatchAny, Goal] consumes any one character (fails only at the end of input).
    #[kani::proof]
    #[kani::unwind(4)]
    #[kani::stub(MatchAttempter::run_lookaround, no_lookaround)]
    #[kani::stub(MatchAttempter::run_scm_loop, no_scm_loop)]
    #[kani::stub(MatchAttempter::run_loop, no_run_loop)]
    fn e2_bt_match_any() {
        match_any_body(true);
    }

    // @obligation name=e2_bt_match_any_except_lt props=C01,C02 fn=classicalbacktrack::MatchAttempter::try_at_pos,scm::MatchAnyExceptLineTerminator::matches kind=bounded bound="2-char haystack (every pair of chars), every boundary, both directions" min_checks=1000 w=2 timeout=900
    // [MatchAnyExceptLineTerminator, Goal] consumes any one character that is not LF, CR, LS or PS.
    #[kani::proof]
    #[kani::unwind(4)]
    #[kani::stub(MatchAttempter::run_lookaround, no_lookaround)]
    #[kani::stub(MatchAttempter::run_scm_loop, no_scm_loop)]
    #[kani::stub(MatchAttempter::run_loop, no_run_loop)]
    fn e2_bt_match_any_except_lt() {
        match_any_body(false);
    }

    fn wb_body(uicase: bool, fwd: bool) {
        let h = Hay::any();
        let k = Hay::any_boundary();
        let invert: bool = kani::any();
        let insn = if uicase { Insn::WordBoundaryUnicodeICase { invert } } else { Insn::WordBoundary { invert } };
        let re = mk(vec![insn, Insn::Goal], 0, 0, vec![]);
        let got = exec(&re, h.text(), h.off(k), fwd);
        let ok = if uicase {
            es_word_boundary(&h, k, invert, es_is_word_char_unicode_icase)
        } else {
            es_word_boundary(&h, k, invert, es_is_word_char)
        };
        assert!(got == if ok { Some(h.off(k)) } else { None });
        kani::cover!(got.is_some() && k == 1);
        kani::cover!(got.is_none());
    }

    // @obligation name=e2_bt_word_boundary props=C01,C02 fn=classicalbacktrack::MatchAttempter::try_at_pos kind=bounded bound="2-char haystack (every pair of chars), every boundary, forward" min_checks=1000 w=2 timeout=900
    // [WordBoundary{invert}, Goal] succeeds without moving iff (IsWordChar(left) != IsWordChar(right)) != invert.
    #[kani::proof]
    #[kani::unwind(4)]
    #[kani::stub(MatchAttempter::run_lookaround, no_lookaround)]
    #[kani::stub(MatchAttempter::run_scm_loop, no_scm_loop)]
    #[kani::stub(MatchAttempter::run_loop, no_run_loop)]
    fn e2_bt_word_boundary() {
        wb_body(false, true);
    }

    // @obligation name=e2_bt_word_boundary_uicase props=C01,C02,C10 fn=classicalbacktrack::MatchAttempter::try_at_pos kind=bounded bound="2-char haystack (every pair of chars), every boundary, forward" min_checks=1000 w=2 timeout=900
    // [WordBoundaryUnicodeICase{invert}, Goal]: same with the i+u word characters (adds U+017F and U+212A).
    #[kani::proof]
    #[kani::unwind(4)]
    #[kani::stub(MatchAttempter::run_lookaround, no_lookaround)]
    #[kani::stub(MatchAttempter::run_scm_loop, no_scm_loop)]
    #[kani::stub(MatchAttempter::run_loop, no_run_loop)]
    fn e2_bt_word_boundary_uicase() {
        wb_body(true, true);
    }

    // @obligation name=e2_bt_word_boundary_backward props=C01:t,C02:t fn=classicalbacktrack::MatchAttempter::try_at_pos kind=bounded bound="2-char haystack (every pair of chars), every boundary, backward (inside lookbehind)" min_checks=1000 w=2 timeout=1800
    // Word boundaries evaluated while travelling backward give the same answers.
    #[kani::proof]
    #[kani::unwind(4)]
    #[kani::stub(MatchAttempter::run_lookaround, no_lookaround)]
    #[kani::stub(MatchAttempter::run_scm_loop, no_scm_loop)]
    #[kani::stub(MatchAttempter::run_loop, no_run_loop)]
    fn e2_bt_word_boundary_backward() {
        wb_body(false, false);
    }

    fn anchor_body(start: bool) {
        let h = Hay::any();
        let k = Hay::any_boundary();
        let multiline: bool = kani::any();
        let insn = if start { Insn::StartOfLine { multiline } } else { Insn::EndOfLine { multiline } };
        let re = mk(vec![insn, Insn::Goal], 0, 0, vec![]);
        let got = exec(&re, h.text(), h.off(k), true);
        let ok = if start { es_start_of_line(&h, k, multiline) } else { es_end_of_line(&h, k, multiline) };
        assert!(got == if ok { Some(h.off(k)) } else { None });
        kani::cover!(got.is_some() && multiline && k == 1);
        kani::cover!(got.is_none() && multiline && k == 1);
    }

    // @obligation name=e2_bt_start_of_line props=C01,C02 fn=classicalbacktrack::MatchAttempter::try_at_pos kind=bounded bound="2-char haystack (every pair of chars), every boundary" min_checks=1000 w=2 timeout=900
    // [StartOfLine{m}, Goal]: succeeds without moving iff at the left end, or m and the character to the left is a line terminator.
    #[kani::proof]
    #[kani::unwind(4)]
    #[kani::stub(MatchAttempter::run_lookaround, no_lookaround)]
    #[kani::stub(MatchAttempter::run_scm_loop, no_scm_loop)]
    #[kani::stub(MatchAttempter::run_loop, no_run_loop)]
    fn e2_bt_start_of_line() {
        anchor_body(true);
    }

    // @obligation name=e2_bt_end_of_line props=C01,C02 fn=classicalbacktrack::MatchAttempter::try_at_pos kind=bounded bound="2-char haystack (every pair of chars), every boundary" min_checks=1000 w=2 timeout=900
    // [EndOfLine{m}, Goal]: succeeds without moving iff at the right end, or m and the character to the right is a line terminator.
    #[kani::proof]
    #[kani::unwind(4)]
    #[kani::stub(MatchAttempter::run_lookaround, no_lookaround)]
    #[kani::stub(MatchAttempter::run_scm_loop, no_scm_loop)]
    #[kani::stub(MatchAttempter::run_loop, no_run_loop)]
    fn e2_bt_end_of_line() {
        anchor_body(false);
    }

    fn jump_alt_body(which: u8) {
        // Concrete data on purpose: two paths that both keep dispatching would be merged by CBMC into a symbolic
        // instruction pointer (all 40 arms explored). Alt/Jump do not inspect the text, so nothing is lost.
        match which {
            0 => {
                let x: u8 = kani::any();
                let b: u8 = kani::any();
                kani::assume(b < 128);
                let buf = [b];
                let text = unsafe { core::str::from_utf8_unchecked(&buf) };
                // Jump over a failing instruction
                let re = mk(vec![Insn::Jump { target: 2 }, Insn::JustFail, Insn::ByteSeq1([x]), Insn::Goal], 0, 0, vec![]);
                assert!(exec(&re, text, 0, true) == if b == x { Some(1) } else { None });
            }
            1 => {
                // Alt, primary succeeds: the secondary is never taken
                unsafe { EXP_IP = 2; EXP_OFF = 0; }
                let re = mk(vec![Insn::Alt { secondary: 2 }, Insn::Goal, Insn::JustFail], 0, 0, vec![]);
                assert!(exec(&re, "a", 0, true) == Some(0));
                unsafe { assert!(RESUMED == 0); }
            }
            2 => {
                // Alt, primary fails: the secondary runs from the position at which the Alt was executed
                unsafe { EXP_IP = 2; EXP_OFF = 0; }
                let re = mk(vec![Insn::Alt { secondary: 2 }, Insn::JustFail, Insn::Goal], 0, 0, vec![]);
                assert!(exec(&re, "a", 0, true) == Some(0));
                unsafe { assert!(RESUMED == 1); }
            }
            _ => {
                // Alt whose secondary fails too
                unsafe { EXP_IP = 3; EXP_OFF = 0; }
                let re = mk(vec![Insn::Alt { secondary: 3 }, Insn::ByteSeq1([b'x']), Insn::Goal, Insn::JustFail], 0, 0, vec![]);
                assert!(exec(&re, "a", 0, true).is_none());
                unsafe { assert!(RESUMED == 1); }
            }
        }
        kani::cover!(true);
    }

    // @obligation name=e2_bt_jump props=C01,C02 fn=classicalbacktrack::MatchAttempter::try_at_pos kind=bounded bound="1-char ASCII haystack; probe operand symbolic" min_checks=1000 w=2 timeout=900
    // Jump{t} continues at instruction t (the skipped instruction is not executed).
    #[kani::proof]
    #[kani::unwind(5)]
    #[kani::stub(MatchAttempter::run_lookaround, no_lookaround)]
    #[kani::stub(MatchAttempter::run_scm_loop, no_scm_loop)]
    #[kani::stub(MatchAttempter::run_loop, no_run_loop)]
    #[kani::stub(MatchAttempter::try_backtrack, spec_backtrack)]
    fn e2_bt_jump() {
        jump_alt_body(0);
    }

    // @obligation name=e2_bt_alt props=C01,C02 fn=classicalbacktrack::MatchAttempter::try_at_pos kind=bounded bound="concrete 1-char haystack (Alt does not inspect the text); try_backtrack replaced by its contract (e4_bt_records_data)" min_checks=1000 w=2 timeout=900
    // Alt{s}: the next instruction is tried first; the secondary is taken exactly when the primary path fails, from the
    // position at which the Alt was executed (ordered choice).
    #[kani::proof]
    #[kani::unwind(5)]
    #[kani::stub(MatchAttempter::run_lookaround, no_lookaround)]
    #[kani::stub(MatchAttempter::run_scm_loop, no_scm_loop)]
    #[kani::stub(MatchAttempter::run_loop, no_run_loop)]
    #[kani::stub(MatchAttempter::try_backtrack, spec_backtrack)]
    fn e2_bt_alt() {
        jump_alt_body(1);
    }

    // @obligation name=e2_bt_alt_secondary props=C01,C02 fn=classicalbacktrack::MatchAttempter::try_at_pos kind=bounded bound="concrete 2-char haystack; try_backtrack replaced by its contract (e4_bt_records_data)" min_checks=1000 w=2 timeout=900
    // Alt{s}, primary fails: the secondary is taken from the position at which the Alt was executed.
    #[kani::proof]
    #[kani::unwind(6)]
    #[kani::stub(MatchAttempter::run_lookaround, no_lookaround)]
    #[kani::stub(MatchAttempter::run_scm_loop, no_scm_loop)]
    #[kani::stub(MatchAttempter::run_loop, no_run_loop)]
    #[kani::stub(MatchAttempter::try_backtrack, spec_backtrack)]
    fn e2_bt_alt_secondary() {
        jump_alt_body(2);
    }

    // @obligation name=e2_bt_alt_both_fail props=C01,C02 fn=classicalbacktrack::MatchAttempter::try_at_pos kind=bounded bound="concrete 1-char haystack; try_backtrack replaced by its contract (e4_bt_records_data)" min_checks=1000 w=2 timeout=900
    // Alt{s} whose secondary also fails: the attempt fails (unless the primary succeeded).
    #[kani::proof]
    #[kani::unwind(5)]
    #[kani::stub(MatchAttempter::run_lookaround, no_lookaround)]
    #[kani::stub(MatchAttempter::run_scm_loop, no_scm_loop)]
    #[kani::stub(MatchAttempter::run_loop, no_run_loop)]
    #[kani::stub(MatchAttempter::try_backtrack, spec_backtrack)]
    fn e2_bt_alt_both_fail() {
        jump_alt_body(3);
    }

    fn capture_body(which: u8, fwd: bool) {
        let input = Utf8Input::new("ab", false);
        let p: usize = kani::any();
        kani::assume(p <= 2);
        let insn = match which { 0 => Insn::BeginCaptureGroup(1), 1 => Insn::EndCaptureGroup(1), _ => Insn::ResetCaptureGroup(1) };
        let re = mk(vec![insn, Insn::Goal], 0, 3, vec![]);
        let mut m = MatchAttempter::<Utf8Input>::new(&re, input.left_end());
        let g0 = GroupData { start: any_opt_pos(&input, 2), end: any_opt_pos(&input, 2) };
        let g1 = GroupData { start: any_opt_pos(&input, 2), end: any_opt_pos(&input, 2) };
        let g2 = GroupData { start: any_opt_pos(&input, 2), end: any_opt_pos(&input, 2) };
        // preconditions the code states itself (debug_assert): a group is entered before it is exited, and not re-entered
        if which == 0 { kani::assume(if fwd { g1.end.is_none() } else { g1.start.is_none() }); }
        if which == 1 { kani::assume(if fwd { g1.start.is_some() } else { g1.end.is_some() }); }
        m.s.groups[0] = g0;
        m.s.groups[1] = g1;
        m.s.groups[2] = g2;
        let pos = input.left_end() + p;
        let r = if fwd { m.try_at_pos(input, 0, pos, Forward::new()) } else { m.try_at_pos(input, 0, pos, Backward::new()) };
        assert!(r == Some(pos));
        let n = m.s.groups[1];
        match (which, fwd) {
            (0, true) => assert!(n.start == Some(pos) && n.end == g1.end),
            (0, false) => assert!(n.end == Some(pos) && n.start == g1.start),
            (1, true) => assert!(n.end == Some(pos) && n.start == g1.start),
            (1, false) => assert!(n.start == Some(pos) && n.end == g1.end),
            _ => assert!(n.start.is_none() && n.end.is_none()),
        }
        assert!(m.s.groups[0].start == g0.start && m.s.groups[0].end == g0.end);
        assert!(m.s.groups[2].start == g2.start && m.s.groups[2].end == g2.end);
        assert!(m.bts.len() == 1);
        kani::cover!(g0.start.is_some());
    }


    // @obligation name=e2_bt_capture_begin props=C01,C02,C16 fn=classicalbacktrack::MatchAttempter::try_at_pos kind=bounded bound="2-byte ASCII haystack, every position, forward, 3 groups with symbolic initial values" min_checks=1000 w=2 timeout=900
    // BeginCaptureGroup(g) records the current position as the group's start (end when travelling backward); other groups untouched; position unchanged.
    #[kani::proof]
    #[kani::unwind(5)]
    #[kani::stub(MatchAttempter::run_lookaround, no_lookaround)]
    #[kani::stub(MatchAttempter::run_scm_loop, no_scm_loop)]
    #[kani::stub(MatchAttempter::run_loop, no_run_loop)]
    fn e2_bt_capture_begin() {
        capture_body(0, true);
    }

    // @obligation name=e2_bt_capture_begin_backward props=C01:t,C02:t fn=classicalbacktrack::MatchAttempter::try_at_pos kind=bounded bound="2-byte ASCII haystack, every position, backward, 3 groups with symbolic initial values" min_checks=1000 w=2 timeout=900
    // BeginCaptureGroup(g) records the current position as the group's start (end when travelling backward); other groups untouched; position unchanged.
    #[kani::proof]
    #[kani::unwind(5)]
    #[kani::stub(MatchAttempter::run_lookaround, no_lookaround)]
    #[kani::stub(MatchAttempter::run_scm_loop, no_scm_loop)]
    #[kani::stub(MatchAttempter::run_loop, no_run_loop)]
    fn e2_bt_capture_begin_backward() {
        capture_body(0, false);
    }

    // @obligation name=e2_bt_capture_end props=C01,C02,C16 fn=classicalbacktrack::MatchAttempter::try_at_pos kind=bounded bound="2-byte ASCII haystack, every position, forward, 3 groups with symbolic initial values" min_checks=1000 w=2 timeout=900
    // EndCaptureGroup(g) records the current position as the group's end (start when travelling backward); other groups untouched; position unchanged.
    #[kani::proof]
    #[kani::unwind(5)]
    #[kani::stub(MatchAttempter::run_lookaround, no_lookaround)]
    #[kani::stub(MatchAttempter::run_scm_loop, no_scm_loop)]
    #[kani::stub(MatchAttempter::run_loop, no_run_loop)]
    fn e2_bt_capture_end() {
        capture_body(1, true);
    }

    // @obligation name=e2_bt_capture_end_backward props=C01:t,C02:t fn=classicalbacktrack::MatchAttempter::try_at_pos kind=bounded bound="2-byte ASCII haystack, every position, backward, 3 groups with symbolic initial values" min_checks=1000 w=2 timeout=900
    // EndCaptureGroup(g) records the current position as the group's end (start when travelling backward); other groups untouched; position unchanged.
    #[kani::proof]
    #[kani::unwind(5)]
    #[kani::stub(MatchAttempter::run_lookaround, no_lookaround)]
    #[kani::stub(MatchAttempter::run_scm_loop, no_scm_loop)]
    #[kani::stub(MatchAttempter::run_loop, no_run_loop)]
    fn e2_bt_capture_end_backward() {
        capture_body(1, false);
    }

    // @obligation name=e2_bt_capture_reset props=C01,C02,C16 fn=classicalbacktrack::MatchAttempter::try_at_pos kind=bounded bound="2-byte ASCII haystack, every position, forward, 3 groups with symbolic initial values" min_checks=1000 w=2 timeout=900
    // ResetCaptureGroup(g) clears both bounds; other groups untouched; position unchanged.
    #[kani::proof]
    #[kani::unwind(5)]
    #[kani::stub(MatchAttempter::run_lookaround, no_lookaround)]
    #[kani::stub(MatchAttempter::run_scm_loop, no_scm_loop)]
    #[kani::stub(MatchAttempter::run_loop, no_run_loop)]
    fn e2_bt_capture_reset() {
        capture_body(2, true);
    }

    // @obligation name=e2_bt_capture_reset_backward props=C01:t,C02:t fn=classicalbacktrack::MatchAttempter::try_at_pos kind=bounded bound="2-byte ASCII haystack, every position, backward, 3 groups with symbolic initial values" min_checks=1000 w=2 timeout=900
    // ResetCaptureGroup(g) clears both bounds; other groups untouched; position unchanged.
    #[kani::proof]
    #[kani::unwind(5)]
    #[kani::stub(MatchAttempter::run_lookaround, no_lookaround)]
    #[kani::stub(MatchAttempter::run_scm_loop, no_scm_loop)]
    #[kani::stub(MatchAttempter::run_loop, no_run_loop)]
    fn e2_bt_capture_reset_backward() {
        capture_body(2, false);
    }

    // @obligation name=e2_bt_backref props=C01,C02 fn=classicalbacktrack::MatchAttempter::try_at_pos,matchers::backref kind=bounded bound="4-byte ASCII haystack (symbolic), every group range, every position, both directions" min_checks=1000 w=2 timeout=900
    // [BackRef{g}, Goal]: if group g has both bounds, succeeds iff the text at the current position (forward: after it,
    // backward: before it) equals the captured text and moves by its length; if the group has not participated it
    // succeeds without moving.
    #[kani::proof]
    #[kani::unwind(6)]
    #[kani::stub(MatchAttempter::run_lookaround, no_lookaround)]
    #[kani::stub(MatchAttempter::run_scm_loop, no_scm_loop)]
    #[kani::stub(MatchAttempter::run_loop, no_run_loop)]
    fn e2_bt_backref() {
        let b: [u8; 4] = kani::any();
        kani::assume(b[0] < 128 && b[1] < 128 && b[2] < 128 && b[3] < 128);
        let text = unsafe { core::str::from_utf8_unchecked(&b) };
        let input = Utf8Input::new(text, false);
        let re = mk(vec![Insn::BackRef { group: 0, icase: false }, Insn::Goal], 0, 1, vec![]);
        let mut m = MatchAttempter::<Utf8Input>::new(&re, input.left_end());
        let g = GroupData { start: any_opt_pos(&input, 4), end: any_opt_pos(&input, 4) };
        if let (Some(s), Some(e)) = (g.start, g.end) { kani::assume(s <= e); }
        m.s.groups[0] = g;
        let p: usize = kani::any();
        kani::assume(p <= 4);
        let fwd: bool = kani::any();
        let pos = input.left_end() + p;
        let r = if fwd { m.try_at_pos(input, 0, pos, Forward::new()) } else { m.try_at_pos(input, 0, pos, Backward::new()) };
        match (g.start, g.end) {
            (Some(s), Some(e)) => {
                let (s, e) = (input.pos_to_offset(s), input.pos_to_offset(e));
                let len = e - s;
                let fits = if fwd { p + len <= 4 } else { p >= len };
                let base = if fwd { p } else { p.wrapping_sub(len) };
                let mut eq = fits;
                let mut i = 0;
                while i < len {
                    if fits && b[base + i] != b[s + i] { eq = false; }
                    i += 1;
                }
                assert!(r.is_some() == eq);
                if let Some(q) = r { assert!(input.pos_to_offset(q) == if fwd { p + len } else { p - len }); }
            }
            _ => assert!(r == Some(pos)),
        }
        kani::cover!(r.is_some() && g.start.is_some() && g.end.is_some() && !fwd);
        kani::cover!(r.is_none());
        kani::cover!(g.end.is_none());
    }

    fn ascii_steps_body(which: u8) {
        let h = Hay::any_ascii();
        let k = Hay::any_boundary();
        let fwd: bool = kani::any();
        let c: u32 = kani::any();
        let set: [u32; 4] = kani::any();
        let flag: bool = kani::any();
        let (cps, _ivs, _n) = crate::matchers::__verif::any_cps(1);
        let insn = match which {
            0 => Insn::Char(c),
            1 => Insn::CharSet(set),
            2 => Insn::Bracket(0),
            3 => Insn::AsciiBracket(crate::bytesearch::AsciiBitmap(kani::any())),
            4 => Insn::MatchAnyExceptLineTerminator,
            5 => Insn::WordBoundary { invert: flag },
            6 => Insn::StartOfLine { multiline: flag },
            _ => Insn::EndOfLine { multiline: flag },
        };
        let re = mk(vec![insn, Insn::Goal], 0, 0, vec![BracketContents { invert: flag, cps }]);
        assert!(exec_ascii(&re, h.text(), h.off(k), fwd) == exec(&re, h.text(), h.off(k), fwd));
        kani::cover!(c > 255);
    }

    // @obligation name=e2_bt_ai_char props=C13,C02:t fn=classicalbacktrack::MatchAttempter::try_at_pos kind=bounded bound="2-char ASCII haystack, every boundary, both directions; symbolic operands" min_checks=1000 w=2 timeout=900
    // On an ASCII haystack the ASCII-input interpreter returns for this instruction kind (char) the same result as the
    // UTF-8-input interpreter (an operand outside Latin-1 never matches and never aborts).
    #[kani::proof]
    #[kani::unwind(6)]
    #[kani::stub(MatchAttempter::run_lookaround, no_lookaround)]
    #[kani::stub(MatchAttempter::run_scm_loop, no_scm_loop)]
    #[kani::stub(MatchAttempter::run_loop, no_run_loop)]
    fn e2_bt_ai_char() {
        ascii_steps_body(0);
    }

    // @obligation name=e2_bt_ai_charset props=C13,C02:t fn=classicalbacktrack::MatchAttempter::try_at_pos kind=bounded bound="2-char ASCII haystack, every boundary, both directions; symbolic operands" min_checks=1000 w=2 timeout=900
    // On an ASCII haystack the ASCII-input interpreter returns for this instruction kind (charset) the same result as the
    // UTF-8-input interpreter (an operand outside Latin-1 never matches and never aborts).
    #[kani::proof]
    #[kani::unwind(6)]
    #[kani::stub(MatchAttempter::run_lookaround, no_lookaround)]
    #[kani::stub(MatchAttempter::run_scm_loop, no_scm_loop)]
    #[kani::stub(MatchAttempter::run_loop, no_run_loop)]
    fn e2_bt_ai_charset() {
        ascii_steps_body(1);
    }

    // @obligation name=e2_bt_ai_bracket props=C13,C02:t fn=classicalbacktrack::MatchAttempter::try_at_pos kind=bounded bound="2-char ASCII haystack, every boundary, both directions; symbolic operands" min_checks=1000 w=2 timeout=900
    // On an ASCII haystack the ASCII-input interpreter returns for this instruction kind (bracket) the same result as the
    // UTF-8-input interpreter (an operand outside Latin-1 never matches and never aborts).
    #[kani::proof]
    #[kani::unwind(6)]
    #[kani::stub(MatchAttempter::run_lookaround, no_lookaround)]
    #[kani::stub(MatchAttempter::run_scm_loop, no_scm_loop)]
    #[kani::stub(MatchAttempter::run_loop, no_run_loop)]
    fn e2_bt_ai_bracket() {
        ascii_steps_body(2);
    }

    // @obligation name=e2_bt_ai_ascii_bracket props=C13:t,C02:t fn=classicalbacktrack::MatchAttempter::try_at_pos kind=bounded bound="2-char ASCII haystack, every boundary, both directions; symbolic operands" min_checks=1000 w=2 timeout=900
    // On an ASCII haystack the ASCII-input interpreter returns for this instruction kind (ascii_bracket) the same result as the
    // UTF-8-input interpreter (an operand outside Latin-1 never matches and never aborts).
    #[kani::proof]
    #[kani::unwind(6)]
    #[kani::stub(MatchAttempter::run_lookaround, no_lookaround)]
    #[kani::stub(MatchAttempter::run_scm_loop, no_scm_loop)]
    #[kani::stub(MatchAttempter::run_loop, no_run_loop)]
    fn e2_bt_ai_ascii_bracket() {
        ascii_steps_body(3);
    }

    // @obligation name=e2_bt_ai_match_any props=C13:t,C02:t fn=classicalbacktrack::MatchAttempter::try_at_pos kind=bounded bound="2-char ASCII haystack, every boundary, both directions; symbolic operands" min_checks=1000 w=2 timeout=900
    // On an ASCII haystack the ASCII-input interpreter returns for this instruction kind (match_any) the same result as the
    // UTF-8-input interpreter (an operand outside Latin-1 never matches and never aborts).
    #[kani::proof]
    #[kani::unwind(6)]
    #[kani::stub(MatchAttempter::run_lookaround, no_lookaround)]
    #[kani::stub(MatchAttempter::run_scm_loop, no_scm_loop)]
    #[kani::stub(MatchAttempter::run_loop, no_run_loop)]
    fn e2_bt_ai_match_any() {
        ascii_steps_body(4);
    }

    // @obligation name=e2_bt_ai_word_boundary props=C13,C02:t fn=classicalbacktrack::MatchAttempter::try_at_pos kind=bounded bound="2-char ASCII haystack, every boundary, both directions; symbolic operands" min_checks=1000 w=2 timeout=900
    // On an ASCII haystack the ASCII-input interpreter returns for this instruction kind (word_boundary) the same result as the
    // UTF-8-input interpreter (an operand outside Latin-1 never matches and never aborts).
    #[kani::proof]
    #[kani::unwind(6)]
    #[kani::stub(MatchAttempter::run_lookaround, no_lookaround)]
    #[kani::stub(MatchAttempter::run_scm_loop, no_scm_loop)]
    #[kani::stub(MatchAttempter::run_loop, no_run_loop)]
    fn e2_bt_ai_word_boundary() {
        ascii_steps_body(5);
    }

    // @obligation name=e2_bt_ai_start_of_line props=C13:t,C02:t fn=classicalbacktrack::MatchAttempter::try_at_pos kind=bounded bound="2-char ASCII haystack, every boundary, both directions; symbolic operands" min_checks=1000 w=2 timeout=900
    // On an ASCII haystack the ASCII-input interpreter returns for this instruction kind (start_of_line) the same result as the
    // UTF-8-input interpreter (an operand outside Latin-1 never matches and never aborts).
    #[kani::proof]
    #[kani::unwind(6)]
    #[kani::stub(MatchAttempter::run_lookaround, no_lookaround)]
    #[kani::stub(MatchAttempter::run_scm_loop, no_scm_loop)]
    #[kani::stub(MatchAttempter::run_loop, no_run_loop)]
    fn e2_bt_ai_start_of_line() {
        ascii_steps_body(6);
    }

    // @obligation name=e2_bt_ai_end_of_line props=C13:t,C02:t fn=classicalbacktrack::MatchAttempter::try_at_pos kind=bounded bound="2-char ASCII haystack, every boundary, both directions; symbolic operands" min_checks=1000 w=2 timeout=900
    // On an ASCII haystack the ASCII-input interpreter returns for this instruction kind (end_of_line) the same result as the
    // UTF-8-input interpreter (an operand outside Latin-1 never matches and never aborts).
    #[kani::proof]
    #[kani::unwind(6)]
    #[kani::stub(MatchAttempter::run_lookaround, no_lookaround)]
    #[kani::stub(MatchAttempter::run_scm_loop, no_scm_loop)]
    #[kani::stub(MatchAttempter::run_loop, no_run_loop)]
    fn e2_bt_ai_end_of_line() {
        ascii_steps_body(7);
    }
