// Contracts for src/parse.rs. Only the class-set algebra (v-mode operands) is under contract: the recursive-descent
// parser itself (Peekable input, HashMap of group names, String errors) does not close under CBMC.
// View of a ClassSet: a set of STRINGS over code points; a member is either a single code point in `codepoints` or a
// string in `alternatives` (a 1-element string denotes the same member as that code point):
//   mem(cs, x) := (x.len() == 1 && cs.codepoints.contains(x[0])) || cs.alternatives.contains(x)
#[cfg(kani)]
pub(crate) mod __verif {
    use super::*;
    use crate::codepointset::__verif::any_set;

    fn mem(cs: &ClassSet, x: &[u32]) -> bool {
        (x.len() == 1 && cs.codepoints.contains(x[0])) || cs.alternatives.0.iter().any(|s| &**s == x)
    }

    fn cp() -> u32 {
        let c: u32 = kani::any();
        kani::assume(c <= 0x10FFFF);
        c
    }

    /// A class set with one symbolic interval, one symbolic 1-element string and one symbolic 2-element string.
    fn any_class_set() -> ClassSet {
        let mut alts = ClassSetAlternativeStrings::new();
        alts.0.push(Box::from([cp()]));
        alts.0.push(Box::from([cp(), cp()]));
        ClassSet { codepoints: any_set(1), alternatives: alts }
    }

    /// Smaller shape for the nested-class operand obligations: one interval + one 1-char string.
    fn small_class_set() -> ClassSet {
        let mut alts = ClassSetAlternativeStrings::new();
        alts.0.push(Box::from([cp()]));
        ClassSet { codepoints: any_set(1), alternatives: alts }
    }

    fn mem_operand(op: &ClassSetOperand, x: &[u32]) -> bool {
        match op {
            ClassSetOperand::ClassSetCharacter(c) => x.len() == 1 && x[0] == *c,
            ClassSetOperand::CharacterClassEscape(cps) => x.len() == 1 && cps.contains(x[0]),
            ClassSetOperand::Class(cs) => mem(cs, x),
            ClassSetOperand::ClassStringDisjunction(s) => s.0.iter().any(|t| &**t == x),
        }
    }

    fn any_operand(kind: u8) -> ClassSetOperand {
        match kind {
            0 => ClassSetOperand::ClassSetCharacter(cp()),
            1 => ClassSetOperand::CharacterClassEscape(any_set(1)),
            2 => ClassSetOperand::Class(small_class_set()),
            _ => {
                let mut alts = ClassSetAlternativeStrings::new();
                alts.0.push(Box::from([cp()]));
                alts.0.push(Box::from([cp(), cp()]));
                ClassSetOperand::ClassStringDisjunction(alts)
            }
        }
    }

    /// op: 0 = union, 1 = intersection, 2 = subtraction
    fn body(op: u8, kind: u8) {
        let mut cs = if kind == 2 { small_class_set() } else { any_class_set() };
        let operand = any_operand(kind);
        // probe: a symbolic string of length 1 or 2 (length 1 only for the nested-class shape, which has no longer strings)
        let two: bool = if kind == 2 { false } else { kani::any() };
        let p = [cp(), cp()];
        let x: &[u32] = if two { &p[..2] } else { &p[..1] };
        let in_cs = mem(&cs, x);
        let in_op = mem_operand(&operand, x);
        match op {
            0 => cs.union_operand(operand),
            1 => cs.intersect_operand(operand),
            _ => cs.subtract_operand(operand),
        }
        let after = mem(&cs, x);
        match op {
            0 => assert!(after == (in_cs || in_op), "union: member of either"),
            1 => assert!(after == (in_cs && in_op), "intersection: member of both"),
            _ => assert!(after == (in_cs && !in_op), "subtraction: member of the left but not the right"),
        }
        core::mem::forget(cs);
        kani::cover!(in_cs && in_op && !two);
        kani::cover!(in_cs && !in_op && (two || kind == 2));
    }

    // @obligation name=cs_union_char props=C12 fn=parse::ClassSet::union_operand kind=bounded bound="class set = 1 symbolic interval + one 1-char string + one 2-char string; operand = a single character with symbolic contents; probe = symbolic string of length 1 or 2" min_checks=50 w=3 timeout=1500
    // v-mode class set union with a single character is the set-theoretic operation on the denoted sets of strings (a 1-character string and
    // the code point are the same member).
    #[kani::proof]
    #[kani::unwind(10)]
    fn cs_union_char() {
        body(0, 0);
    }

    // @obligation name=cs_union_escape props=C12:t fn=parse::ClassSet::union_operand kind=bounded bound="class set = 1 symbolic interval + one 1-char string + one 2-char string; operand = a class escape (set of code points) with symbolic contents; probe = symbolic string of length 1 or 2" min_checks=50 w=3 timeout=1500
    // v-mode class set union with a class escape (set of code points) is the set-theoretic operation on the denoted sets of strings (a 1-character string and
    // the code point are the same member).
    #[kani::proof]
    #[kani::unwind(10)]
    fn cs_union_escape() {
        body(0, 1);
    }

    // @obligation name=cs_union_class props= fn=parse::ClassSet::union_operand kind=bounded bound="class set = 1 symbolic interval + one 1-char string + one 2-char string; operand = a nested class with symbolic contents; both sides: 1 symbolic interval + one 1-char string; probe = symbolic 1-char string" min_checks=50 w=3 timeout=1500
    // v-mode class set union with a nested class (code points + strings) is the set-theoretic operation on the denoted sets of strings (a 1-character string and
    // the code point are the same member).
    #[kani::proof]
    #[kani::unwind(10)]
    fn cs_union_class() {
        body(0, 2);
    }

    // @obligation name=cs_union_strings props=C12 fn=parse::ClassSet::union_operand kind=bounded bound="class set = 1 symbolic interval + one 1-char string + one 2-char string; operand = a \\q{...} string disjunction with symbolic contents; probe = symbolic string of length 1 or 2" min_checks=50 w=3 timeout=1500
    // v-mode class set union with a \\q{...} string disjunction is the set-theoretic operation on the denoted sets of strings (a 1-character string and
    // the code point are the same member).
    #[kani::proof]
    #[kani::unwind(10)]
    fn cs_union_strings() {
        body(0, 3);
    }

    // @obligation name=cs_intersect_char props=C12:t fn=parse::ClassSet::intersect_operand kind=bounded bound="class set = 1 symbolic interval + one 1-char string + one 2-char string; operand = a single character with symbolic contents; probe = symbolic string of length 1 or 2" min_checks=50 w=3 timeout=1500
    // v-mode class set intersection (&&) with a single character is the set-theoretic operation on the denoted sets of strings (a 1-character string and
    // the code point are the same member).
    #[kani::proof]
    #[kani::unwind(10)]
    fn cs_intersect_char() {
        body(1, 0);
    }

    // @obligation name=cs_intersect_escape props=C12:t fn=parse::ClassSet::intersect_operand kind=bounded bound="class set = 1 symbolic interval + one 1-char string + one 2-char string; operand = a class escape (set of code points) with symbolic contents; probe = symbolic string of length 1 or 2" min_checks=50 w=3 timeout=1500
    // v-mode class set intersection (&&) with a class escape (set of code points) is the set-theoretic operation on the denoted sets of strings (a 1-character string and
    // the code point are the same member).
    #[kani::proof]
    #[kani::unwind(10)]
    fn cs_intersect_escape() {
        body(1, 1);
    }

    // @obligation name=cs_intersect_class props= fn=parse::ClassSet::intersect_operand kind=bounded bound="class set = 1 symbolic interval + one 1-char string + one 2-char string; operand = a nested class with symbolic contents; both sides: 1 symbolic interval + one 1-char string; probe = symbolic 1-char string" min_checks=50 w=3 timeout=1500
    // v-mode class set intersection (&&) with a nested class (code points + strings) is the set-theoretic operation on the denoted sets of strings (a 1-character string and
    // the code point are the same member).
    #[kani::proof]
    #[kani::unwind(10)]
    fn cs_intersect_class() {
        body(1, 2);
    }

    // @obligation name=cs_intersect_strings props=C12 fn=parse::ClassSet::intersect_operand kind=bounded bound="class set = 1 symbolic interval + one 1-char string + one 2-char string; operand = a \\q{...} string disjunction with symbolic contents; probe = symbolic string of length 1 or 2" min_checks=50 w=3 timeout=1500
    // v-mode class set intersection (&&) with a \\q{...} string disjunction is the set-theoretic operation on the denoted sets of strings (a 1-character string and
    // the code point are the same member).
    #[kani::proof]
    #[kani::unwind(10)]
    fn cs_intersect_strings() {
        body(1, 3);
    }

    // @obligation name=cs_subtract_char props=C12:t fn=parse::ClassSet::subtract_operand kind=bounded bound="class set = 1 symbolic interval + one 1-char string + one 2-char string; operand = a single character with symbolic contents; probe = symbolic string of length 1 or 2" min_checks=50 w=3 timeout=1500
    // v-mode class set subtraction (--) with a single character is the set-theoretic operation on the denoted sets of strings (a 1-character string and
    // the code point are the same member).
    #[kani::proof]
    #[kani::unwind(10)]
    fn cs_subtract_char() {
        body(2, 0);
    }

    // @obligation name=cs_subtract_escape props=C12:t fn=parse::ClassSet::subtract_operand kind=bounded bound="class set = 1 symbolic interval + one 1-char string + one 2-char string; operand = a class escape (set of code points) with symbolic contents; probe = symbolic string of length 1 or 2" min_checks=50 w=3 timeout=1500
    // v-mode class set subtraction (--) with a class escape (set of code points) is the set-theoretic operation on the denoted sets of strings (a 1-character string and
    // the code point are the same member).
    #[kani::proof]
    #[kani::unwind(10)]
    fn cs_subtract_escape() {
        body(2, 1);
    }

    // @obligation name=cs_subtract_class props= fn=parse::ClassSet::subtract_operand kind=bounded bound="class set = 1 symbolic interval + one 1-char string + one 2-char string; operand = a nested class with symbolic contents; both sides: 1 symbolic interval + one 1-char string; probe = symbolic 1-char string" min_checks=50 w=3 timeout=1500
    // v-mode class set subtraction (--) with a nested class (code points + strings) is the set-theoretic operation on the denoted sets of strings (a 1-character string and
    // the code point are the same member).
    #[kani::proof]
    #[kani::unwind(10)]
    fn cs_subtract_class() {
        body(2, 2);
    }

    // @obligation name=cs_subtract_strings props= fn=parse::ClassSet::subtract_operand kind=bounded bound="class set = 1 symbolic interval + one 1-char string + one 2-char string; operand = a \\q{...} string disjunction with symbolic contents; probe = symbolic string of length 1 or 2" min_checks=50 w=3 timeout=1500
    // v-mode class set subtraction (--) with a \\q{...} string disjunction is the set-theoretic operation on the denoted sets of strings (a 1-character string and
    // the code point are the same member).
    #[kani::proof]
    #[kani::unwind(10)]
    fn cs_subtract_strings() {
        body(2, 3);
    }

    // @obligation name=cs_intersect_class_string_vs_codepoint props= fn=parse::ClassSet::intersect_operand kind=bounded bound="left: 1 symbolic interval, no strings; operand: nested class with no code points and one symbolic 1-char string (the shape of [[0-9]&&[\\q{2}]]); probe: symbolic 1-char string" min_checks=50 w=3 timeout=1500
    // Intersection with a nested class treats a 1-character string and the code point as the same member: a code point of the
    // left side survives iff the nested class has it as a 1-char string (or as a code point), and nothing else appears.
    #[kani::proof]
    #[kani::unwind(10)]
    fn cs_intersect_class_string_vs_codepoint() {
        let mut cs = ClassSet { codepoints: any_set(1), alternatives: ClassSetAlternativeStrings::new() };
        let c = cp();
        let mut alts = ClassSetAlternativeStrings::new();
        alts.0.push(Box::from([c]));
        let operand = ClassSetOperand::Class(ClassSet { codepoints: CodePointSet::new(), alternatives: alts });
        let y = cp();
        let x = [y];
        let in_cs = mem(&cs, &x);
        cs.intersect_operand(operand);
        assert!(mem(&cs, &x) == (in_cs && y == c), "intersection: member of both (string [c] counts as code point c)");
        core::mem::forget(cs);
        kani::cover!(in_cs && y == c);
        kani::cover!(in_cs && y != c);
    }

    // ---------------------------------------------------------------------------------------------
    // Parser methods on a hand-built Parser value (never through try_parse: the group pre-scan uses a HashMap).

    fn fixed_random_state() -> std::hash::RandomState {
        // only ever an empty map is queried; fixed keys keep CBMC away from the OS randomness model
        unsafe { core::mem::transmute::<[u64; 2], std::hash::RandomState>([1, 2]) }
    }

    fn parser<'a>(input: &'a [u32], flags: api::Flags) -> Parser<core::iter::Copied<core::slice::Iter<'a, u32>>> {
        Parser {
            input: input.iter().copied().peekable(),
            flags,
            loop_count: 0,
            group_count: 0,
            named_group_indices: HashMap::new(),
            group_count_max: 0,
            has_lookbehind: false,
            depth: 0,
        }
    }

    // @obligation name=p_class_set_single_ampersand props= fn=parse::Parser::consume_class_set_expression kind=bounded bound="class contents `x & y ]` under v with symbolic lower-case letters x, y; probe: every code point" min_checks=50 w=3 timeout=1500
    // In a v-mode class a single `&` is an ordinary character: [x&y] denotes exactly {x, &, y}.
    #[kani::proof]
    #[kani::unwind(8)]
    #[kani::stub(std::hash::RandomState::new, fixed_random_state)]
    fn p_class_set_single_ampersand() {
        let x: u32 = kani::any();
        let y: u32 = kani::any();
        kani::assume((0x61..=0x7A).contains(&x) && (0x61..=0x7A).contains(&y));
        let buf = [x, 0x26, y, 0x5D];
        let flags = api::Flags { unicode: true, unicode_sets: true, ..Default::default() };
        let mut p = parser(&buf, flags);
        let r = p.consume_class_set_expression(false);
        match &r {
            Ok(cs) => {
                let cp: u32 = kani::any();
                kani::assume(cp <= 0x10FFFF);
                assert!(cs.codepoints.contains(cp) == (cp == x || cp == 0x26 || cp == y), "[x&y] = {x, &, y}");
                assert!(cs.alternatives.0.is_empty());
            }
            Err(_) => assert!(false, "[x&y] is a valid class under v"),
        }
        core::mem::forget((r, p));
        kani::cover!(x != y);
    }

    // @obligation name=j5_character_escape_syntax_chars props=C18 fn=parse::Parser::consume_character_escape kind=complete domain="every code point 0..=0x10FFFF as the escaped character, unicode flag on and off" min_checks=100 w=2 timeout=900
    // The parser's CharacterEscape: for each of the 14 syntax characters (and `/`), `\c` denotes the literal c in every mode
    // and consumes exactly that character - the inverse of escape() (cv_escape); for every other code point the call
    // returns Ok or Err without panicking.
    #[kani::proof]
    #[kani::unwind(4)]
    #[kani::stub(std::hash::RandomState::new, fixed_random_state)]
    fn j5_character_escape_syntax_chars() {
        let c: u32 = kani::any();
        kani::assume(c <= 0x10FFFF);
        let unicode: bool = kani::any();
        let flags = api::Flags { unicode, ..Default::default() };
        let buf = [c];
        let mut p = parser(&buf, flags);
        let r = p.consume_character_escape();
        let syntax = matches!(to_char_sat(c), '^' | '$' | '\\' | '.' | '*' | '+' | '?' | '(' | ')' | '[' | ']' | '{' | '}' | '|');
        if syntax {
            assert!(matches!(&r, Ok(x) if *x == c), "an escaped syntax character is that literal character");
            assert!(p.peek().is_none(), "exactly the escaped character is consumed");
        }
        core::mem::forget((r, p));
        kani::cover!(syntax && unicode);
        kani::cover!(!syntax);
    }

    /// ECMA-262 CharacterEscape (22.2.1, with Annex B.1.2 when not in Unicode mode), as a function of the first three code
    /// points after the backslash. Returns None where this specification function does not decide the case
    /// (`u` escapes - they have their own routine - and a legacy `\c` that is not followed by a letter, which the grammar
    /// gives to the enclosing production), Some(Err) where the escape is a syntax error, Some(Ok((value, consumed))).
    fn es_character_escape(c: [u32; 3], unicode: bool) -> Option<Result<(u32, usize), ()>> {
        let dig = |x: u32| (0x30..=0x39).contains(&x);
        let oct = |x: u32| (0x30..=0x37).contains(&x);
        let hex = |x: u32| -> Option<u32> {
            if (0x30..=0x39).contains(&x) { Some(x - 0x30) }
            else if (0x41..=0x46).contains(&x) { Some(x - 0x41 + 10) }
            else if (0x61..=0x66).contains(&x) { Some(x - 0x61 + 10) }
            else { None }
        };
        let letter = |x: u32| (0x41..=0x5A).contains(&x) || (0x61..=0x7A).contains(&x);
        let c0 = c[0];
        // ControlEscape
        match c0 {
            0x66 => return Some(Ok((0xC, 1))),
            0x6E => return Some(Ok((0xA, 1))),
            0x72 => return Some(Ok((0xD, 1))),
            0x74 => return Some(Ok((0x9, 1))),
            0x76 => return Some(Ok((0xB, 1))),
            _ => {}
        }
        if c0 == 0x63 {
            // c AsciiLetter
            if letter(c[1]) { return Some(Ok((c[1] % 32, 2))); }
            return if unicode { Some(Err(())) } else { None };
        }
        if c0 == 0x75 { return None; }
        if c0 == 0x30 && !dig(c[1]) { return Some(Ok((0, 1))); }
        if c0 == 0x78 {
            return match (hex(c[1]), hex(c[2])) {
                (Some(a), Some(b)) => Some(Ok((a * 16 + b, 3))),
                _ => if unicode { Some(Err(())) } else { Some(Ok((0x78, 1))) },
            };
        }
        if !unicode && oct(c0) {
            // Annex B LegacyOctalEscapeSequence
            let d0 = c0 - 0x30;
            if c0 == 0x30 && (c[1] == 0x38 || c[1] == 0x39) { return Some(Ok((0, 1))); }
            if !oct(c[1]) { return Some(Ok((d0, 1))); }
            let d1 = c[1] - 0x30;
            if d0 >= 4 { return Some(Ok((d0 * 8 + d1, 2))); }
            if oct(c[2]) { return Some(Ok((d0 * 64 + d1 * 8 + (c[2] - 0x30), 3))); }
            return Some(Ok((d0 * 8 + d1, 2)));
        }
        let syntax = matches!(to_char_sat(c0), '^' | '$' | '\\' | '.' | '*' | '+' | '?' | '(' | ')' | '[' | ']' | '{' | '}' | '|' | '/');
        if unicode {
            if syntax { Some(Ok((c0, 1))) } else { Some(Err(())) }
        } else {
            // SourceCharacterIdentityEscape
            Some(Ok((c0, 1)))
        }
    }

    fn j5_check(c: [u32; 3], unicode: bool) {
        let flags = api::Flags { unicode, ..Default::default() };
        let mut p = parser(&c, flags);
        let r = p.consume_character_escape();
        let mut left = 0usize;
        while p.input.next().is_some() { left += 1; }
        match es_character_escape(c, unicode) {
            None => {}
            Some(Err(())) => assert!(r.is_err(), "ES: this escape is a syntax error"),
            Some(Ok((v, used))) => {
                assert!(matches!(&r, Ok(x) if *x == v), "ES: value denoted by the escape");
                assert!(left == 3 - used, "ES: number of code points the escape consumes");
            }
        }
        core::mem::forget((r, p));
    }

    // @obligation name=j5_escape_hex props=C18,C01:t fn=parse::Parser::consume_character_escape kind=bounded bound="\\x followed by every pair of code points, both modes" min_checks=100 w=3 timeout=1500
    // \xHH denotes 16*H+H and consumes three code points; without two hex digits it is an error in Unicode mode and the
    // identity escape `x` (one code point consumed, input restored) otherwise.
    #[kani::proof]
    #[kani::unwind(5)]
    #[kani::stub(std::hash::RandomState::new, fixed_random_state)]
    fn j5_escape_hex() {
        let a: u32 = kani::any();
        let b: u32 = kani::any();
        kani::assume(a <= 0x10FFFF && b <= 0x10FFFF);
        j5_check([0x78, a, b], kani::any());
        kani::cover!(a == 0x41 && b == 0x66);
    }

    // @obligation name=j5_escape_control_letter props=C18,C01:t fn=parse::Parser::consume_character_escape kind=bounded bound="\\c followed by every code point, both modes" min_checks=100 w=3 timeout=1500
    // \cX for an ASCII letter X denotes X % 32 and consumes two code points; in Unicode mode any other follower is an error.
    #[kani::proof]
    #[kani::unwind(5)]
    #[kani::stub(std::hash::RandomState::new, fixed_random_state)]
    fn j5_escape_control_letter() {
        let a: u32 = kani::any();
        kani::assume(a <= 0x10FFFF);
        j5_check([0x63, a, 0x21], kani::any());
        kani::cover!(a == 0x4A);
    }

    // @obligation name=j5_escape_legacy_octal_0 props=C18:t,C01:t fn=parse::Parser::consume_character_escape kind=bounded bound="digit 0 followed by every pair of code points, non-Unicode mode" min_checks=100 w=3 timeout=1500
    // Annex B LegacyOctalEscapeSequence, \\0: 0 before 8/9 or a non-digit; otherwise the octal sequence 0dd.
    #[kani::proof]
    #[kani::unwind(5)]
    #[kani::stub(std::hash::RandomState::new, fixed_random_state)]
    fn j5_escape_legacy_octal_0() {
        let a: u32 = kani::any();
        let b: u32 = kani::any();
        kani::assume(a <= 0x10FFFF && b <= 0x10FFFF);
        j5_check([0x30, a, b], false);
        kani::cover!(a == 0x37 && b == 0x37);
    }

    // @obligation name=j5_escape_legacy_octal_3 props=C18,C01:t fn=parse::Parser::consume_character_escape kind=bounded bound="digit 3 followed by every pair of code points, non-Unicode mode" min_checks=100 w=3 timeout=1500
    // Annex B LegacyOctalEscapeSequence, first digit 3 (ZeroToThree): up to three octal digits.
    #[kani::proof]
    #[kani::unwind(5)]
    #[kani::stub(std::hash::RandomState::new, fixed_random_state)]
    fn j5_escape_legacy_octal_3() {
        let a: u32 = kani::any();
        let b: u32 = kani::any();
        kani::assume(a <= 0x10FFFF && b <= 0x10FFFF);
        j5_check([0x33, a, b], false);
        kani::cover!(a == 0x37 && b == 0x37);
    }

    // @obligation name=j5_escape_legacy_octal_5 props=C18:t,C01:t fn=parse::Parser::consume_character_escape kind=bounded bound="digit 5 followed by every pair of code points, non-Unicode mode" min_checks=100 w=3 timeout=1500
    // Annex B LegacyOctalEscapeSequence, first digit 5 (FourToSeven): at most two octal digits.
    #[kani::proof]
    #[kani::unwind(5)]
    #[kani::stub(std::hash::RandomState::new, fixed_random_state)]
    fn j5_escape_legacy_octal_5() {
        let a: u32 = kani::any();
        let b: u32 = kani::any();
        kani::assume(a <= 0x10FFFF && b <= 0x10FFFF);
        j5_check([0x35, a, b], false);
        kani::cover!(a == 0x37 && b == 0x37);
    }

    // @obligation name=j5_escape_legacy_octal_8 props=C18:t,C01:t fn=parse::Parser::consume_character_escape kind=bounded bound="digit 8 followed by every pair of code points, non-Unicode mode" min_checks=100 w=3 timeout=1500
    // Annex B LegacyOctalEscapeSequence, 8 is not octal: identity escape.
    #[kani::proof]
    #[kani::unwind(5)]
    #[kani::stub(std::hash::RandomState::new, fixed_random_state)]
    fn j5_escape_legacy_octal_8() {
        let a: u32 = kani::any();
        let b: u32 = kani::any();
        kani::assume(a <= 0x10FFFF && b <= 0x10FFFF);
        j5_check([0x38, a, b], false);
        kani::cover!(a == 0x37 && b == 0x37);
    }

    // @obligation name=j5_escape_identity props=C18,C01:t fn=parse::Parser::consume_character_escape kind=complete domain="every code point other than x, c, u and the digits as the escaped character, both modes" min_checks=100 w=3 timeout=1500
    // Control escapes f n r t v; identity escapes: in Unicode mode only syntax characters and `/` (anything else is an error),
    // otherwise every character denotes itself; exactly one code point is consumed.
    #[kani::proof]
    #[kani::unwind(5)]
    #[kani::stub(std::hash::RandomState::new, fixed_random_state)]
    fn j5_escape_identity() {
        let c0: u32 = kani::any();
        kani::assume(c0 <= 0x10FFFF && c0 != 0x78 && c0 != 0x63 && c0 != 0x75 && !(0x30..=0x39).contains(&c0));
        j5_check([c0, 0x41, 0x42], kani::any());
        kani::cover!(c0 == 0x6E);
        kani::cover!(c0 == 0x2F);
    }

    // @obligation name=l1_decimal_integer_literal props=C01:t,C05:t fn=parse::Parser::try_consume_decimal_integer_literal kind=bounded bound="3 symbolic code points followed by a non-digit; plus a concrete run of 25 nines" min_checks=100 w=3 timeout=1500
    // DecimalIntegerLiteral: consumes the maximal run of ASCII decimal digits and returns its value (None if there is no
    // digit); a value beyond usize::MAX saturates instead of overflowing or panicking.
    #[kani::proof]
    #[kani::unwind(28)]
    #[kani::stub(std::hash::RandomState::new, fixed_random_state)]
    fn l1_decimal_integer_literal() {
        let c: [u32; 3] = kani::any();
        kani::assume(c[0] <= 0x10FFFF && c[1] <= 0x10FFFF && c[2] <= 0x10FFFF);
        let buf = [c[0], c[1], c[2], 0x7D];
        let mut p = parser(&buf, api::Flags::default());
        let r = p.try_consume_decimal_integer_literal();
        let dig = |x: u32| (0x30..=0x39).contains(&x);
        let n = if !dig(c[0]) { 0 } else if !dig(c[1]) { 1 } else if !dig(c[2]) { 2 } else { 3 };
        let mut v: usize = 0;
        let mut i = 0;
        while i < n { v = v * 10 + (c[i] - 0x30) as usize; i += 1; }
        assert!(r == if n == 0 { None } else { Some(v) });
        let mut left = 0usize;
        while p.input.next().is_some() { left += 1; }
        assert!(left == 4 - n, "exactly the digits are consumed");
        core::mem::forget(p);
        let nines = [0x39u32; 25];
        let mut q = parser(&nines, api::Flags::default());
        assert!(q.try_consume_decimal_integer_literal() == Some(usize::MAX), "saturates");
        core::mem::forget(q);
        kani::cover!(n == 3);
        kani::cover!(n == 0);
    }

    fn braced(shape: u8) {
        // shapes: 0 = {a}   1 = {a,}   2 = {a,b}   3 = {a  (unterminated)   4 = {}  (no number)
        let a: u32 = kani::any();
        let b: u32 = kani::any();
        kani::assume((0x30..=0x39).contains(&a) && (0x30..=0x39).contains(&b));
        let (va, vb) = ((a - 0x30) as usize, (b - 0x30) as usize);
        let buf: [u32; 5] = match shape {
            0 => [0x7B, a, 0x7D, 0x21, 0x21],
            1 => [0x7B, a, 0x2C, 0x7D, 0x21],
            2 => [0x7B, a, 0x2C, b, 0x7D],
            3 => [0x7B, a, 0x21, 0x21, 0x21],
            _ => [0x7B, 0x7D, 0x21, 0x21, 0x21],
        };
        let mut p = parser(&buf, api::Flags::default());
        let r = p.try_consume_braced_quantifier();
        let mut left = 0usize;
        while p.input.next().is_some() { left += 1; }
        match shape {
            0 => { assert!(matches!(&r, Some(q) if q.min == va && q.max == Some(va) && q.greedy)); assert!(left == 2); }
            1 => { assert!(matches!(&r, Some(q) if q.min == va && q.max.is_none() && q.greedy)); assert!(left == 1); }
            2 => { assert!(matches!(&r, Some(q) if q.min == va && q.max == Some(vb) && q.greedy)); assert!(left == 0); }
            _ => { assert!(r.is_none()); assert!(left == 5, "not a quantifier: the input is restored"); }
        }
        core::mem::forget(p);
        kani::cover!(true);
    }

    // @obligation name=l1_braced_quantifier_forms props=C01:t,C05:t fn=parse::Parser::try_consume_braced_quantifier kind=bounded bound="{a}, {a,}, {a,b} with symbolic single digits" min_checks=100 w=3 timeout=1500
    // {a} means exactly a, {a,} at least a (unbounded), {a,b} between a and b; all greedy; the whole quantifier is consumed.
    #[kani::proof]
    #[kani::unwind(8)]
    #[kani::stub(std::hash::RandomState::new, fixed_random_state)]
    fn l1_braced_quantifier_forms() {
        braced(0);
        braced(1);
        braced(2);
    }

    // @obligation name=l1_braced_quantifier_rollback props=C01:t fn=parse::Parser::try_consume_braced_quantifier kind=bounded bound="`{a` without closing brace and `{}`" min_checks=100 w=3 timeout=1500
    // Something that is not a well-formed braced quantifier yields None and leaves the input untouched (Annex B: the `{` is
    // then an ordinary character).
    #[kani::proof]
    #[kani::unwind(8)]
    #[kani::stub(std::hash::RandomState::new, fixed_random_state)]
    fn l1_braced_quantifier_rollback() {
        braced(3);
        braced(4);
    }

    // @obligation name=p_disjunction_single_literal props= fn=parse::Parser::consume_disjunction,parse::Parser::consume_term kind=bounded bound="a one-character pattern whose character is not a syntax character (every such code point), flags: none / u" min_checks=100 w=3 timeout=1500
    // A pattern consisting of one non-syntax character parses to the literal Char node for that character (so every
    // character escape() leaves alone denotes itself).
    #[kani::proof]
    #[kani::unwind(4)]
    #[kani::stub(std::hash::RandomState::new, fixed_random_state)]
    fn p_disjunction_single_literal() {
        let c: u32 = kani::any();
        kani::assume(c <= 0x10FFFF);
        let syntax = matches!(to_char_sat(c), '^' | '$' | '\\' | '.' | '*' | '+' | '?' | '(' | ')' | '[' | ']' | '{' | '}' | '|');
        kani::assume(!syntax);
        let unicode: bool = kani::any();
        let buf = [c];
        let mut p = parser(&buf, api::Flags { unicode, ..Default::default() });
        let r = p.consume_disjunction();
        match &r {
            Ok(ir::Node::Char { c: x }) => assert!(*x == c),
            _ => assert!(false, "a non-syntax character is a literal"),
        }
        core::mem::forget((r, p));
        kani::cover!(c > 0xFFFF);
    }
}
