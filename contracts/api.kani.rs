// Contracts for src/api.rs: Match accessors (J1), replacement template expansion (J2), splice (J3), escape (J4).
#[cfg(kani)]
pub(crate) mod __verif {
    use super::*;

    fn any_range(max: usize) -> Option<Range> {
        if kani::any() {
            let a: usize = kani::any();
            let b: usize = kani::any();
            kani::assume(a <= b && b <= max);
            Some(a..b)
        } else {
            None
        }
    }

    fn name_of(k: u8) -> &'static str {
        match k {
            0 => "",
            1 => "a",
            _ => "b",
        }
    }

    // @obligation name=j1_group_accessors props=C16 fn=api::Match::group,api::Match::groups,api::Groups::next,api::Match::range,api::Match::start,api::Match::end kind=bounded bound="Match with 2 capture slots, symbolic ranges" min_checks=50 w=2 timeout=900
    // group(0) is the whole match, group(i) is captures[i-1] for 1 <= i <= n and None beyond; groups() yields exactly
    // group(0), ..., group(n) and then None (len n+1); range()/start()/end() agree with group(0).
    #[kani::proof]
    #[kani::unwind(5)]
    fn j1_group_accessors() {
        let r = any_range(8).unwrap_or(0..0);
        let c0 = any_range(8);
        let c1 = any_range(8);
        let m = Match { range: r.clone(), captures: vec![c0.clone(), c1.clone()], group_names: Vec::new().into_boxed_slice() };
        assert!(m.group(0) == Some(r.clone()));
        assert!(m.group(1) == c0 && m.group(2) == c1);
        let i: usize = kani::any();
        kani::assume(i >= 3);
        assert!(m.group(i).is_none());
        assert!(m.range() == r && m.start() == r.start && m.end() == r.end);
        let mut g = m.groups();
        assert!(g.len() == 3);
        assert!(g.next() == Some(Some(r.clone())));
        assert!(g.next() == Some(c0.clone()));
        assert!(g.next() == Some(c1.clone()));
        assert!(g.next().is_none());
        assert!(g.next().is_none());
        core::mem::forget(m);
        kani::cover!(c0.is_none() && c1.is_some());
    }

    // @obligation name=j1_named_accessors props=C16 fn=api::Match::named_group,api::Match::named_groups,api::NamedGroups::next kind=bounded bound="Match with 3 capture slots, names drawn from {unnamed, a, b} (all 27 assignments, duplicates included), symbolic participation" min_checks=50 w=3 timeout=1500
    // named_groups() yields each distinct non-empty name exactly once, in order of first appearance, with the range of
    // the first group of that name that participated (None if none did); named_group(name) returns that same value;
    // unnamed groups and unknown names give None.
    #[kani::proof]
    #[kani::unwind(6)]
    fn j1_named_accessors() {
        let k: [u8; 3] = kani::any();
        kani::assume(k[0] < 3 && k[1] < 3 && k[2] < 3);
        let caps = [any_range(4), any_range(4), any_range(4)];
        let names: Vec<Box<str>> = vec![name_of(k[0]).into(), name_of(k[1]).into(), name_of(k[2]).into()];
        let m = Match { range: 0..4, captures: vec![caps[0].clone(), caps[1].clone(), caps[2].clone()], group_names: names.into_boxed_slice() };
        // spec: value of name code q = first participating group with that name
        let spec = |q: u8| -> Option<Range> {
            let mut i = 0;
            while i < 3 {
                if k[i] == q && caps[i].is_some() { return caps[i].clone(); }
                i += 1;
            }
            None
        };
        let has = |q: u8| k[0] == q || k[1] == q || k[2] == q;
        // named_group agrees with the spec for both names, and is None for "" and unknown names
        assert!(m.named_group("a") == if has(1) { spec(1) } else { None }, "named_group(a) = first participating group named a");
        assert!(m.named_group("b") == if has(2) { spec(2) } else { None }, "named_group(b) = first participating group named b");
        assert!(m.named_group("").is_none() && m.named_group("c").is_none());
        // named_groups: distinct names in first-appearance order
        let first_a = if k[0] == 1 { 0 } else if k[1] == 1 { 1 } else if k[2] == 1 { 2 } else { 3 };
        let first_b = if k[0] == 2 { 0 } else if k[1] == 2 { 1 } else if k[2] == 2 { 2 } else { 3 };
        let mut it = m.named_groups();
        let x1 = it.next();
        let x2 = it.next();
        let x3 = it.next();
        assert!(x3.is_none());
        let n_names = (has(1) as usize) + (has(2) as usize);
        match n_names {
            0 => assert!(x1.is_none() && x2.is_none()),
            1 => {
                let q = if has(1) { 1 } else { 2 };
                assert!(x1 == Some((name_of(q), spec(q))) && x2.is_none());
            }
            _ => {
                let (q1, q2) = if first_a < first_b { (1, 2) } else { (2, 1) };
                assert!(x1 == Some((name_of(q1), spec(q1))), "first yielded name");
                assert!(x2 == Some((name_of(q2), spec(q2))), "second yielded name");
            }
        }
        core::mem::forget(m);
        kani::cover!(k[0] == 1 && k[1] == 1 && caps[0].is_none() && caps[1].is_some());
        kani::cover!(n_names == 2 && first_b < first_a);
    }

    // @obligation name=j4_escape_char props= fn=api::escape kind=complete domain="every ASCII char (as a one-character string); non-ASCII chars take the same `_ => push(c)` arm" min_checks=50 w=3 timeout=1500
    // escape(c) is "\\" + c for the 14 syntax characters \ ^ $ . | ? * + ( ) [ ] { } and c itself for every other char.
    #[kani::proof]
    #[kani::unwind(8)]
    fn j4_escape_char() {
        let c: char = kani::any();
        kani::assume((c as u32) < 128);
        let mut buf = [0u8; 4];
        let s: &str = c.encode_utf8(&mut buf);
        let out = escape(s);
        let syntax = matches!(c, '\\' | '^' | '$' | '.' | '|' | '?' | '*' | '+' | '(' | ')' | '[' | ']' | '{' | '}');
        let ob = out.as_bytes();
        if syntax {
            assert!(ob.len() == 2 && ob[0] == b'\\' && ob[1] == c as u8);
        } else {
            assert!(ob.len() == s.len());
            let i: usize = kani::any();
            kani::assume(i < ob.len());
            assert!(ob[i] == s.as_bytes()[i]);
        }
        core::mem::forget(out);
        kani::cover!(syntax);
        kani::cover!(!syntax);
    }

    // @obligation name=j4_escape_two_chars props= fn=api::escape kind=bounded bound="strings of two ASCII chars (symbolic)" min_checks=50 w=2 timeout=900
    // escape is applied character by character: escape(c1 c2) = escape(c1) ++ escape(c2) (ASCII).
    #[kani::proof]
    #[kani::unwind(8)]
    fn j4_escape_two_chars() {
        let b: [u8; 2] = kani::any();
        kani::assume(b[0] < 128 && b[1] < 128);
        let s = unsafe { core::str::from_utf8_unchecked(&b) };
        let out = escape(s);
        let syn = |x: u8| matches!(x, b'\\' | b'^' | b'$' | b'.' | b'|' | b'?' | b'*' | b'+' | b'(' | b')' | b'[' | b']' | b'{' | b'}');
        let ob = out.as_bytes();
        let n0 = if syn(b[0]) { 2 } else { 1 };
        let n1 = if syn(b[1]) { 2 } else { 1 };
        assert!(ob.len() == n0 + n1);
        if syn(b[0]) { assert!(ob[0] == b'\\' && ob[1] == b[0]); } else { assert!(ob[0] == b[0]); }
        if syn(b[1]) { assert!(ob[n0] == b'\\' && ob[n0 + 1] == b[1]); } else { assert!(ob[n0] == b[1]); }
        core::mem::forget(out);
        kani::cover!(syn(b[0]) && !syn(b[1]));
    }

    fn regex_goal() -> &'static Regex {
        let cr = crate::classicalbacktrack::__verif::mk_owned(vec![crate::insn::Insn::Goal], 0, 1, vec![]);
        Box::leak(Box::new(Regex { cr }))
    }

    // @obligation name=j2_expand_replacement_2 props= fn=api::Regex::expand_replacement kind=bounded bound="templates of 2 characters over {$, 0, 1, 2, a}; match 1..3 of \"wxyz\" with one group (symbolic participation)" min_checks=50 w=3 timeout=1500
    // expand_replacement against the template specification: `$$` -> `$`; `$N` -> text of group N (`$0` the whole match,
    // nothing if absent or not participating); a lone `$` and every other character are copied literally.
    #[kani::proof]
    #[kani::unwind(8)]
    fn j2_expand_replacement_2() {
        let re = regex_goal();
        let text = "wxyz";
        let g1: bool = kani::any();
        let m = Match { range: 1..3, captures: vec![if g1 { Some(2..3) } else { None }], group_names: Vec::new().into_boxed_slice() };
        let alpha = [b'$', b'0', b'1', b'2', b'a'];
        let i0: usize = kani::any();
        let i1: usize = kani::any();
        kani::assume(i0 < 5 && i1 < 5);
        let t = [alpha[i0], alpha[i1]];
        let tmpl = unsafe { core::str::from_utf8_unchecked(&t) };
        let mut out = String::new();
        re.expand_replacement(&m, text, tmpl, &mut out);
        // specification
        let mut exp = [0u8; 4];
        let mut n = 0;
        if t[0] == b'$' {
            match t[1] {
                b'$' => { exp[0] = b'$'; n = 1; }
                b'0' => { exp[0] = b'x'; exp[1] = b'y'; n = 2; }
                b'1' => { if g1 { exp[0] = b'y'; n = 1; } }
                b'2' => {}
                _ => { exp[0] = b'$'; exp[1] = t[1]; n = 2; }
            }
        } else {
            exp[0] = t[0];
            n = 1;
            // second char: a lone trailing `$` is literal, anything else too
            exp[1] = t[1];
            n = 2;
        }
        let ob = out.as_bytes();
        assert!(ob.len() == n, "expansion length");
        let k: usize = kani::any();
        kani::assume(k < n);
        assert!(ob[k] == exp[k], "expansion content");
        core::mem::forget(out);
        core::mem::forget(m);
        kani::cover!(t[0] == b'$' && t[1] == b'1' && g1);
        kani::cover!(t[0] == b'a' && t[1] == b'$');
    }

    // ---- C17: template expansion against the template specification (concrete templates, symbolic participation) ----
    /// Template specification written from the property text (bytes; templates here are ASCII):
    /// `$$` -> `$`; `$` followed by a maximal run of digits -> text of that group (0 = whole match; nothing if absent or
    /// not participating); `${name}` -> text of the named group (nothing if unknown / not participating); an unterminated
    /// `${` and every other character are literal. Returns the number of bytes written to `out`.
    fn spec_expand(t: &[u8], text: &[u8], whole: (usize, usize), g1: Option<(usize, usize)>, g1_name: &[u8], out: &mut [u8; 24]) -> usize {
        let mut n = 0;
        let mut i = 0;
        while i < t.len() {
            let c = t[i];
            i += 1;
            if c != b'$' || i >= t.len() {
                out[n] = c;
                n += 1;
                continue;
            }
            let d = t[i];
            if d == b'$' {
                i += 1;
                out[n] = b'$';
                n += 1;
            } else if d.is_ascii_digit() {
                let mut num: u64 = 0;
                while i < t.len() && t[i].is_ascii_digit() {
                    num = num.saturating_mul(10).saturating_add((t[i] - b'0') as u64);
                    i += 1;
                }
                let r = if num == 0 { Some(whole) } else if num == 1 { g1 } else { None };
                if let Some((a, b)) = r {
                    let mut k = a;
                    while k < b {
                        out[n] = text[k];
                        n += 1;
                        k += 1;
                    }
                }
            } else if d == b'{' {
                let mut j = i + 1;
                while j < t.len() && t[j] != b'}' {
                    j += 1;
                }
                if j < t.len() {
                    let name = &t[i + 1..j];
                    i = j + 1;
                    let mut same = !name.is_empty() && name.len() == g1_name.len();
                    if same {
                        let mut q = 0;
                        while q < name.len() {
                            if name[q] != g1_name[q] { same = false; }
                            q += 1;
                        }
                    }
                    if same {
                        if let Some((a, b)) = g1 {
                            let mut k = a;
                            while k < b {
                                out[n] = text[k];
                                n += 1;
                                k += 1;
                            }
                        }
                    }
                } else {
                    // unterminated: `${` and the rest are literal
                    out[n] = b'$';
                    n += 1;
                }
            } else {
                out[n] = b'$';
                n += 1;
            }
        }
        n
    }

    /// One template against the specification. `mb` selects a haystack whose match and group contain a 2-byte
    /// character; whether group 1 (named `n`) participated is symbolic.
    fn run_template(tmpl: &str, mb: bool) -> (bool, bool) {
        let re = regex_goal();
        let text = if mb { "w\u{e9}yz" } else { "wxyz" };
        let (whole, grp) = if mb { ((1, 4), (1, 3)) } else { ((1, 3), (2, 3)) };
        let g1: bool = kani::any();
        let names: Vec<Box<str>> = vec!["n".into()];
        let m = Match { range: whole.0..whole.1, captures: vec![if g1 { Some(grp.0..grp.1) } else { None }], group_names: names.into_boxed_slice() };
        let mut out = String::new();
        re.expand_replacement(&m, text, tmpl, &mut out);
        let mut exp = [0u8; 24];
        let n = spec_expand(tmpl.as_bytes(), text.as_bytes(), whole, if g1 { Some(grp) } else { None }, b"n", &mut exp);
        let ob = out.as_bytes();
        let len_ok = ob.len() == n;
        // (no assume here: several templates are checked in sequence and an empty expansion must not cut the path)
        let k: usize = kani::any();
        let content_ok = !(len_ok && k < n) || ob[k] == exp[k];
        core::mem::forget(out);
        core::mem::forget(m);
        (len_ok, content_ok)
    }

    fn check_template(tmpl: &str, mb: bool) {
        let r = run_template(tmpl, mb);
        assert!(r.0, "expansion length equals the template specification");
        assert!(r.1, "expansion content equals the template specification");
    }

    // BEGIN GENERATED j2c (contracts/gen/gen_api.py)
    // @obligation name=j2c_literal props=C17 fn=api::Regex::expand_replacement,api::Match::group,api::Match::named_group kind=bounded bound="the 5 concrete templates '' 'a' 'ab}' 'é{' '}{a'; haystack 'wxyz'; group 1 (named n) participation symbolic" min_checks=50 w=2 timeout=900
    // templates without `$`: expand_replacement(template) == spec_expand(template) (`$$` -> `$`, `$N` with the maximal digit run -> group
    // text or nothing, `${name}` -> named group text or nothing, an unterminated `${` and everything else literal).
    #[kani::proof]
    #[kani::unwind(7)]
    fn j2c_literal() {
        let r = run_template("", false);
        assert!(r.0, "template ``: expansion length equals the template specification");
        assert!(r.1, "template ``: expansion content equals the template specification");
        let r = run_template("a", false);
        assert!(r.0, "template `a`: expansion length equals the template specification");
        assert!(r.1, "template `a`: expansion content equals the template specification");
        let r = run_template("ab}", false);
        assert!(r.0, "template `ab}}`: expansion length equals the template specification");
        assert!(r.1, "template `ab}}`: expansion content equals the template specification");
        let r = run_template("é{", false);
        assert!(r.0, "template `é{{`: expansion length equals the template specification");
        assert!(r.1, "template `é{{`: expansion content equals the template specification");
        let r = run_template("}{a", false);
        assert!(r.0, "template `}}{{a`: expansion length equals the template specification");
        assert!(r.1, "template `}}{{a`: expansion content equals the template specification");
        kani::cover!(true, "end of the harness is reachable (vacuity guard)");
    }

    // @obligation name=j2c_dollar props=C17 fn=api::Regex::expand_replacement,api::Match::group,api::Match::named_group kind=bounded bound="the 8 concrete templates '$' '$$' '$$$' 'a$' '$a' '$$1' '$}' '$é'; haystack 'wxyz'; group 1 (named n) participation symbolic" min_checks=50 w=2 timeout=900
    // `$$`, trailing and stray `$`: expand_replacement(template) == spec_expand(template) (`$$` -> `$`, `$N` with the maximal digit run -> group
    // text or nothing, `${name}` -> named group text or nothing, an unterminated `${` and everything else literal).
    #[kani::proof]
    #[kani::unwind(7)]
    fn j2c_dollar() {
        let r = run_template("$", false);
        assert!(r.0, "template `$`: expansion length equals the template specification");
        assert!(r.1, "template `$`: expansion content equals the template specification");
        let r = run_template("$$", false);
        assert!(r.0, "template `$$`: expansion length equals the template specification");
        assert!(r.1, "template `$$`: expansion content equals the template specification");
        let r = run_template("$$$", false);
        assert!(r.0, "template `$$$`: expansion length equals the template specification");
        assert!(r.1, "template `$$$`: expansion content equals the template specification");
        let r = run_template("a$", false);
        assert!(r.0, "template `a$`: expansion length equals the template specification");
        assert!(r.1, "template `a$`: expansion content equals the template specification");
        let r = run_template("$a", false);
        assert!(r.0, "template `$a`: expansion length equals the template specification");
        assert!(r.1, "template `$a`: expansion content equals the template specification");
        let r = run_template("$$1", false);
        assert!(r.0, "template `$$1`: expansion length equals the template specification");
        assert!(r.1, "template `$$1`: expansion content equals the template specification");
        let r = run_template("$}", false);
        assert!(r.0, "template `$}}`: expansion length equals the template specification");
        assert!(r.1, "template `$}}`: expansion content equals the template specification");
        let r = run_template("$é", false);
        assert!(r.0, "template `$é`: expansion length equals the template specification");
        assert!(r.1, "template `$é`: expansion content equals the template specification");
        kani::cover!(true, "end of the harness is reachable (vacuity guard)");
    }

    // @obligation name=j2c_numbered props=C17 fn=api::Regex::expand_replacement,api::Match::group,api::Match::named_group kind=bounded bound="the 9 concrete templates '$0' '$1' '$2' '$01' '$10' '$1a' '$1$1' 'a$0b' '$1$'; haystack 'wxyz'; group 1 (named n) participation symbolic" min_checks=50 w=2 timeout=900
    // numbered references: expand_replacement(template) == spec_expand(template) (`$$` -> `$`, `$N` with the maximal digit run -> group
    // text or nothing, `${name}` -> named group text or nothing, an unterminated `${` and everything else literal).
    #[kani::proof]
    #[kani::unwind(8)]
    fn j2c_numbered() {
        let r = run_template("$0", false);
        assert!(r.0, "template `$0`: expansion length equals the template specification");
        assert!(r.1, "template `$0`: expansion content equals the template specification");
        let r = run_template("$1", false);
        assert!(r.0, "template `$1`: expansion length equals the template specification");
        assert!(r.1, "template `$1`: expansion content equals the template specification");
        let r = run_template("$2", false);
        assert!(r.0, "template `$2`: expansion length equals the template specification");
        assert!(r.1, "template `$2`: expansion content equals the template specification");
        let r = run_template("$01", false);
        assert!(r.0, "template `$01`: expansion length equals the template specification");
        assert!(r.1, "template `$01`: expansion content equals the template specification");
        let r = run_template("$10", false);
        assert!(r.0, "template `$10`: expansion length equals the template specification");
        assert!(r.1, "template `$10`: expansion content equals the template specification");
        let r = run_template("$1a", false);
        assert!(r.0, "template `$1a`: expansion length equals the template specification");
        assert!(r.1, "template `$1a`: expansion content equals the template specification");
        let r = run_template("$1$1", false);
        assert!(r.0, "template `$1$1`: expansion length equals the template specification");
        assert!(r.1, "template `$1$1`: expansion content equals the template specification");
        let r = run_template("a$0b", false);
        assert!(r.0, "template `a$0b`: expansion length equals the template specification");
        assert!(r.1, "template `a$0b`: expansion content equals the template specification");
        let r = run_template("$1$", false);
        assert!(r.0, "template `$1$`: expansion length equals the template specification");
        assert!(r.1, "template `$1$`: expansion content equals the template specification");
        kani::cover!(true, "end of the harness is reachable (vacuity guard)");
    }

    // @obligation name=j2c_named props=C17 fn=api::Regex::expand_replacement,api::Match::group,api::Match::named_group kind=bounded bound="the 10 concrete templates '${n}' '${m}' '${}' '${n' '${' '${n}${n}' 'a${n}b' '${n}}' '${$n}' '${nn}'; haystack 'wxyz'; group 1 (named n) participation symbolic" min_checks=50 w=2 timeout=900
    // named references: expand_replacement(template) == spec_expand(template) (`$$` -> `$`, `$N` with the maximal digit run -> group
    // text or nothing, `${name}` -> named group text or nothing, an unterminated `${` and everything else literal).
    #[kani::proof]
    #[kani::unwind(12)]
    fn j2c_named() {
        let r = run_template("${n}", false);
        assert!(r.0, "template `${{n}}`: expansion length equals the template specification");
        assert!(r.1, "template `${{n}}`: expansion content equals the template specification");
        let r = run_template("${m}", false);
        assert!(r.0, "template `${{m}}`: expansion length equals the template specification");
        assert!(r.1, "template `${{m}}`: expansion content equals the template specification");
        let r = run_template("${}", false);
        assert!(r.0, "template `${{}}`: expansion length equals the template specification");
        assert!(r.1, "template `${{}}`: expansion content equals the template specification");
        let r = run_template("${n", false);
        assert!(r.0, "template `${{n`: expansion length equals the template specification");
        assert!(r.1, "template `${{n`: expansion content equals the template specification");
        let r = run_template("${", false);
        assert!(r.0, "template `${{`: expansion length equals the template specification");
        assert!(r.1, "template `${{`: expansion content equals the template specification");
        let r = run_template("${n}${n}", false);
        assert!(r.0, "template `${{n}}${{n}}`: expansion length equals the template specification");
        assert!(r.1, "template `${{n}}${{n}}`: expansion content equals the template specification");
        let r = run_template("a${n}b", false);
        assert!(r.0, "template `a${{n}}b`: expansion length equals the template specification");
        assert!(r.1, "template `a${{n}}b`: expansion content equals the template specification");
        let r = run_template("${n}}", false);
        assert!(r.0, "template `${{n}}}}`: expansion length equals the template specification");
        assert!(r.1, "template `${{n}}}}`: expansion content equals the template specification");
        let r = run_template("${$n}", false);
        assert!(r.0, "template `${{$n}}`: expansion length equals the template specification");
        assert!(r.1, "template `${{$n}}`: expansion content equals the template specification");
        let r = run_template("${nn}", false);
        assert!(r.0, "template `${{nn}}`: expansion length equals the template specification");
        assert!(r.1, "template `${{nn}}`: expansion content equals the template specification");
        kani::cover!(true, "end of the harness is reachable (vacuity guard)");
    }

    // @obligation name=j2c_multibyte props=C17 fn=api::Regex::expand_replacement,api::Match::group,api::Match::named_group kind=bounded bound="the 4 concrete templates '$0' '$1é' 'é${n}' '$$é$'; haystack 'w\u{e9}yz' (2-byte char inside the match); group 1 (named n) participation symbolic" min_checks=50 w=2 timeout=900
    // multi-byte haystack and template: expand_replacement(template) == spec_expand(template) (`$$` -> `$`, `$N` with the maximal digit run -> group
    // text or nothing, `${name}` -> named group text or nothing, an unterminated `${` and everything else literal).
    #[kani::proof]
    #[kani::unwind(10)]
    fn j2c_multibyte() {
        let r = run_template("$0", true);
        assert!(r.0, "template `$0`: expansion length equals the template specification");
        assert!(r.1, "template `$0`: expansion content equals the template specification");
        let r = run_template("$1é", true);
        assert!(r.0, "template `$1é`: expansion length equals the template specification");
        assert!(r.1, "template `$1é`: expansion content equals the template specification");
        let r = run_template("é${n}", true);
        assert!(r.0, "template `é${{n}}`: expansion length equals the template specification");
        assert!(r.1, "template `é${{n}}`: expansion content equals the template specification");
        let r = run_template("$$é$", true);
        assert!(r.0, "template `$$é$`: expansion length equals the template specification");
        assert!(r.1, "template `$$é$`: expansion content equals the template specification");
        kani::cover!(true, "end of the harness is reachable (vacuity guard)");
    }

    // @obligation name=j2c_digit_run_small props=C17 fn=api::Regex::expand_replacement,api::Match::group,api::Match::named_group kind=bounded bound="the 3 concrete templates '$000001' '$65535' '$0000000'; haystack 'wxyz'; group 1 (named n) participation symbolic" min_checks=50 w=2 timeout=900
    // long digit runs below the group-count cap: expand_replacement(template) == spec_expand(template) (`$$` -> `$`, `$N` with the maximal digit run -> group
    // text or nothing, `${name}` -> named group text or nothing, an unterminated `${` and everything else literal).
    #[kani::proof]
    #[kani::unwind(12)]
    fn j2c_digit_run_small() {
        let r = run_template("$000001", false);
        assert!(r.0, "template `$000001`: expansion length equals the template specification");
        assert!(r.1, "template `$000001`: expansion content equals the template specification");
        let r = run_template("$65535", false);
        assert!(r.0, "template `$65535`: expansion length equals the template specification");
        assert!(r.1, "template `$65535`: expansion content equals the template specification");
        let r = run_template("$0000000", false);
        assert!(r.0, "template `$0000000`: expansion length equals the template specification");
        assert!(r.1, "template `$0000000`: expansion content equals the template specification");
        kani::cover!(true, "end of the harness is reachable (vacuity guard)");
    }

    // @obligation name=j2c_digit_run_cap props=C17 fn=api::Regex::expand_replacement,api::Match::group,api::Match::named_group kind=bounded bound="the 4 concrete templates '$65536' '$655360' '$1234567' '$65536a'; haystack 'wxyz'; group 1 (named n) participation symbolic" min_checks=50 w=2 timeout=900
    // digit runs whose value exceeds 65535 (F8, fixed): expand_replacement(template) == spec_expand(template) (`$$` -> `$`, `$N` with the maximal digit run -> group
    // text or nothing, `${name}` -> named group text or nothing, an unterminated `${` and everything else literal).
    #[kani::proof]
    #[kani::unwind(12)]
    fn j2c_digit_run_cap() {
        let r = run_template("$65536", false);
        assert!(r.0, "template `$65536`: expansion length equals the template specification");
        assert!(r.1, "template `$65536`: expansion content equals the template specification");
        let r = run_template("$655360", false);
        assert!(r.0, "template `$655360`: expansion length equals the template specification");
        assert!(r.1, "template `$655360`: expansion content equals the template specification");
        let r = run_template("$1234567", false);
        assert!(r.0, "template `$1234567`: expansion length equals the template specification");
        assert!(r.1, "template `$1234567`: expansion content equals the template specification");
        let r = run_template("$65536a", false);
        assert!(r.0, "template `$65536a`: expansion length equals the template specification");
        assert!(r.1, "template `$65536a`: expansion content equals the template specification");
        kani::cover!(true, "end of the harness is reachable (vacuity guard)");
    }

    // @obligation name=j2c_digit_run_huge props=C17:t fn=api::Regex::expand_replacement,api::Match::group,api::Match::named_group kind=bounded bound="the 2 concrete templates '$99999999999999999999' '$18446744073709551616'; haystack 'wxyz'; group 1 (named n) participation symbolic" min_checks=50 w=3 timeout=1500
    // digit runs beyond usize::MAX (F8, fixed): expand_replacement(template) == spec_expand(template) (`$$` -> `$`, `$N` with the maximal digit run -> group
    // text or nothing, `${name}` -> named group text or nothing, an unterminated `${` and everything else literal).
    #[kani::proof]
    #[kani::unwind(25)]
    fn j2c_digit_run_huge() {
        let r = run_template("$99999999999999999999", false);
        assert!(r.0, "template `$99999999999999999999`: expansion length equals the template specification");
        assert!(r.1, "template `$99999999999999999999`: expansion content equals the template specification");
        let r = run_template("$18446744073709551616", false);
        assert!(r.0, "template `$18446744073709551616`: expansion length equals the template specification");
        assert!(r.1, "template `$18446744073709551616`: expansion content equals the template specification");
        kani::cover!(true, "end of the harness is reachable (vacuity guard)");
    }

    // @obligation name=j2c_all3_00 props=C17:t fn=api::Regex::expand_replacement,api::Match::group,api::Match::named_group kind=bounded bound="the 6 concrete templates '' '$' '1' '{' '}' 'n'; haystack 'wxyz'; group 1 (named n) participation symbolic" min_checks=50 w=2 timeout=900
    // exhaustive: templates 0..5 of the 156 templates of length <= 3 over {$,1,{,},n}: expand_replacement(template) == spec_expand(template) (`$$` -> `$`, `$N` with the maximal digit run -> group
    // text or nothing, `${name}` -> named group text or nothing, an unterminated `${` and everything else literal).
    #[kani::proof]
    #[kani::unwind(5)]
    fn j2c_all3_00() {
        let r = run_template("", false);
        assert!(r.0, "template ``: expansion length equals the template specification");
        assert!(r.1, "template ``: expansion content equals the template specification");
        let r = run_template("$", false);
        assert!(r.0, "template `$`: expansion length equals the template specification");
        assert!(r.1, "template `$`: expansion content equals the template specification");
        let r = run_template("1", false);
        assert!(r.0, "template `1`: expansion length equals the template specification");
        assert!(r.1, "template `1`: expansion content equals the template specification");
        let r = run_template("{", false);
        assert!(r.0, "template `{{`: expansion length equals the template specification");
        assert!(r.1, "template `{{`: expansion content equals the template specification");
        let r = run_template("}", false);
        assert!(r.0, "template `}}`: expansion length equals the template specification");
        assert!(r.1, "template `}}`: expansion content equals the template specification");
        let r = run_template("n", false);
        assert!(r.0, "template `n`: expansion length equals the template specification");
        assert!(r.1, "template `n`: expansion content equals the template specification");
        kani::cover!(true, "end of the harness is reachable (vacuity guard)");
    }

    // @obligation name=j2c_all3_01 props=C17:t fn=api::Regex::expand_replacement,api::Match::group,api::Match::named_group kind=bounded bound="the 6 concrete templates '$$' '$1' '${' '$}' '$n' '1$'; haystack 'wxyz'; group 1 (named n) participation symbolic" min_checks=50 w=2 timeout=900
    // exhaustive: templates 6..11 of the 156 templates of length <= 3 over {$,1,{,},n}: expand_replacement(template) == spec_expand(template) (`$$` -> `$`, `$N` with the maximal digit run -> group
    // text or nothing, `${name}` -> named group text or nothing, an unterminated `${` and everything else literal).
    #[kani::proof]
    #[kani::unwind(6)]
    fn j2c_all3_01() {
        let r = run_template("$$", false);
        assert!(r.0, "template `$$`: expansion length equals the template specification");
        assert!(r.1, "template `$$`: expansion content equals the template specification");
        let r = run_template("$1", false);
        assert!(r.0, "template `$1`: expansion length equals the template specification");
        assert!(r.1, "template `$1`: expansion content equals the template specification");
        let r = run_template("${", false);
        assert!(r.0, "template `${{`: expansion length equals the template specification");
        assert!(r.1, "template `${{`: expansion content equals the template specification");
        let r = run_template("$}", false);
        assert!(r.0, "template `$}}`: expansion length equals the template specification");
        assert!(r.1, "template `$}}`: expansion content equals the template specification");
        let r = run_template("$n", false);
        assert!(r.0, "template `$n`: expansion length equals the template specification");
        assert!(r.1, "template `$n`: expansion content equals the template specification");
        let r = run_template("1$", false);
        assert!(r.0, "template `1$`: expansion length equals the template specification");
        assert!(r.1, "template `1$`: expansion content equals the template specification");
        kani::cover!(true, "end of the harness is reachable (vacuity guard)");
    }

    // @obligation name=j2c_all3_02 props=C17:t fn=api::Regex::expand_replacement,api::Match::group,api::Match::named_group kind=bounded bound="the 6 concrete templates '11' '1{' '1}' '1n' '{$' '{1'; haystack 'wxyz'; group 1 (named n) participation symbolic" min_checks=50 w=2 timeout=900
    // exhaustive: templates 12..17 of the 156 templates of length <= 3 over {$,1,{,},n}: expand_replacement(template) == spec_expand(template) (`$$` -> `$`, `$N` with the maximal digit run -> group
    // text or nothing, `${name}` -> named group text or nothing, an unterminated `${` and everything else literal).
    #[kani::proof]
    #[kani::unwind(6)]
    fn j2c_all3_02() {
        let r = run_template("11", false);
        assert!(r.0, "template `11`: expansion length equals the template specification");
        assert!(r.1, "template `11`: expansion content equals the template specification");
        let r = run_template("1{", false);
        assert!(r.0, "template `1{{`: expansion length equals the template specification");
        assert!(r.1, "template `1{{`: expansion content equals the template specification");
        let r = run_template("1}", false);
        assert!(r.0, "template `1}}`: expansion length equals the template specification");
        assert!(r.1, "template `1}}`: expansion content equals the template specification");
        let r = run_template("1n", false);
        assert!(r.0, "template `1n`: expansion length equals the template specification");
        assert!(r.1, "template `1n`: expansion content equals the template specification");
        let r = run_template("{$", false);
        assert!(r.0, "template `{{$`: expansion length equals the template specification");
        assert!(r.1, "template `{{$`: expansion content equals the template specification");
        let r = run_template("{1", false);
        assert!(r.0, "template `{{1`: expansion length equals the template specification");
        assert!(r.1, "template `{{1`: expansion content equals the template specification");
        kani::cover!(true, "end of the harness is reachable (vacuity guard)");
    }

    // @obligation name=j2c_all3_03 props=C17:t fn=api::Regex::expand_replacement,api::Match::group,api::Match::named_group kind=bounded bound="the 6 concrete templates '{{' '{}' '{n' '}$' '}1' '}{'; haystack 'wxyz'; group 1 (named n) participation symbolic" min_checks=50 w=2 timeout=900
    // exhaustive: templates 18..23 of the 156 templates of length <= 3 over {$,1,{,},n}: expand_replacement(template) == spec_expand(template) (`$$` -> `$`, `$N` with the maximal digit run -> group
    // text or nothing, `${name}` -> named group text or nothing, an unterminated `${` and everything else literal).
    #[kani::proof]
    #[kani::unwind(6)]
    fn j2c_all3_03() {
        let r = run_template("{{", false);
        assert!(r.0, "template `{{{{`: expansion length equals the template specification");
        assert!(r.1, "template `{{{{`: expansion content equals the template specification");
        let r = run_template("{}", false);
        assert!(r.0, "template `{{}}`: expansion length equals the template specification");
        assert!(r.1, "template `{{}}`: expansion content equals the template specification");
        let r = run_template("{n", false);
        assert!(r.0, "template `{{n`: expansion length equals the template specification");
        assert!(r.1, "template `{{n`: expansion content equals the template specification");
        let r = run_template("}$", false);
        assert!(r.0, "template `}}$`: expansion length equals the template specification");
        assert!(r.1, "template `}}$`: expansion content equals the template specification");
        let r = run_template("}1", false);
        assert!(r.0, "template `}}1`: expansion length equals the template specification");
        assert!(r.1, "template `}}1`: expansion content equals the template specification");
        let r = run_template("}{", false);
        assert!(r.0, "template `}}{{`: expansion length equals the template specification");
        assert!(r.1, "template `}}{{`: expansion content equals the template specification");
        kani::cover!(true, "end of the harness is reachable (vacuity guard)");
    }

    // @obligation name=j2c_all3_04 props=C17:t fn=api::Regex::expand_replacement,api::Match::group,api::Match::named_group kind=bounded bound="the 6 concrete templates '}}' '}n' 'n$' 'n1' 'n{' 'n}'; haystack 'wxyz'; group 1 (named n) participation symbolic" min_checks=50 w=2 timeout=900
    // exhaustive: templates 24..29 of the 156 templates of length <= 3 over {$,1,{,},n}: expand_replacement(template) == spec_expand(template) (`$$` -> `$`, `$N` with the maximal digit run -> group
    // text or nothing, `${name}` -> named group text or nothing, an unterminated `${` and everything else literal).
    #[kani::proof]
    #[kani::unwind(6)]
    fn j2c_all3_04() {
        let r = run_template("}}", false);
        assert!(r.0, "template `}}}}`: expansion length equals the template specification");
        assert!(r.1, "template `}}}}`: expansion content equals the template specification");
        let r = run_template("}n", false);
        assert!(r.0, "template `}}n`: expansion length equals the template specification");
        assert!(r.1, "template `}}n`: expansion content equals the template specification");
        let r = run_template("n$", false);
        assert!(r.0, "template `n$`: expansion length equals the template specification");
        assert!(r.1, "template `n$`: expansion content equals the template specification");
        let r = run_template("n1", false);
        assert!(r.0, "template `n1`: expansion length equals the template specification");
        assert!(r.1, "template `n1`: expansion content equals the template specification");
        let r = run_template("n{", false);
        assert!(r.0, "template `n{{`: expansion length equals the template specification");
        assert!(r.1, "template `n{{`: expansion content equals the template specification");
        let r = run_template("n}", false);
        assert!(r.0, "template `n}}`: expansion length equals the template specification");
        assert!(r.1, "template `n}}`: expansion content equals the template specification");
        kani::cover!(true, "end of the harness is reachable (vacuity guard)");
    }

    // @obligation name=j2c_all3_05 props=C17:t fn=api::Regex::expand_replacement,api::Match::group,api::Match::named_group kind=bounded bound="the 6 concrete templates 'nn' '$$$' '$$1' '$${' '$$}' '$$n'; haystack 'wxyz'; group 1 (named n) participation symbolic" min_checks=50 w=2 timeout=900
    // exhaustive: templates 30..35 of the 156 templates of length <= 3 over {$,1,{,},n}: expand_replacement(template) == spec_expand(template) (`$$` -> `$`, `$N` with the maximal digit run -> group
    // text or nothing, `${name}` -> named group text or nothing, an unterminated `${` and everything else literal).
    #[kani::proof]
    #[kani::unwind(7)]
    fn j2c_all3_05() {
        let r = run_template("nn", false);
        assert!(r.0, "template `nn`: expansion length equals the template specification");
        assert!(r.1, "template `nn`: expansion content equals the template specification");
        let r = run_template("$$$", false);
        assert!(r.0, "template `$$$`: expansion length equals the template specification");
        assert!(r.1, "template `$$$`: expansion content equals the template specification");
        let r = run_template("$$1", false);
        assert!(r.0, "template `$$1`: expansion length equals the template specification");
        assert!(r.1, "template `$$1`: expansion content equals the template specification");
        let r = run_template("$${", false);
        assert!(r.0, "template `$${{`: expansion length equals the template specification");
        assert!(r.1, "template `$${{`: expansion content equals the template specification");
        let r = run_template("$$}", false);
        assert!(r.0, "template `$$}}`: expansion length equals the template specification");
        assert!(r.1, "template `$$}}`: expansion content equals the template specification");
        let r = run_template("$$n", false);
        assert!(r.0, "template `$$n`: expansion length equals the template specification");
        assert!(r.1, "template `$$n`: expansion content equals the template specification");
        kani::cover!(true, "end of the harness is reachable (vacuity guard)");
    }

    // @obligation name=j2c_all3_06 props=C17:t fn=api::Regex::expand_replacement,api::Match::group,api::Match::named_group kind=bounded bound="the 6 concrete templates '$1$' '$11' '$1{' '$1}' '$1n' '${$'; haystack 'wxyz'; group 1 (named n) participation symbolic" min_checks=50 w=2 timeout=900
    // exhaustive: templates 36..41 of the 156 templates of length <= 3 over {$,1,{,},n}: expand_replacement(template) == spec_expand(template) (`$$` -> `$`, `$N` with the maximal digit run -> group
    // text or nothing, `${name}` -> named group text or nothing, an unterminated `${` and everything else literal).
    #[kani::proof]
    #[kani::unwind(7)]
    fn j2c_all3_06() {
        let r = run_template("$1$", false);
        assert!(r.0, "template `$1$`: expansion length equals the template specification");
        assert!(r.1, "template `$1$`: expansion content equals the template specification");
        let r = run_template("$11", false);
        assert!(r.0, "template `$11`: expansion length equals the template specification");
        assert!(r.1, "template `$11`: expansion content equals the template specification");
        let r = run_template("$1{", false);
        assert!(r.0, "template `$1{{`: expansion length equals the template specification");
        assert!(r.1, "template `$1{{`: expansion content equals the template specification");
        let r = run_template("$1}", false);
        assert!(r.0, "template `$1}}`: expansion length equals the template specification");
        assert!(r.1, "template `$1}}`: expansion content equals the template specification");
        let r = run_template("$1n", false);
        assert!(r.0, "template `$1n`: expansion length equals the template specification");
        assert!(r.1, "template `$1n`: expansion content equals the template specification");
        let r = run_template("${$", false);
        assert!(r.0, "template `${{$`: expansion length equals the template specification");
        assert!(r.1, "template `${{$`: expansion content equals the template specification");
        kani::cover!(true, "end of the harness is reachable (vacuity guard)");
    }

    // @obligation name=j2c_all3_07 props=C17:t fn=api::Regex::expand_replacement,api::Match::group,api::Match::named_group kind=bounded bound="the 6 concrete templates '${1' '${{' '${}' '${n' '$}$' '$}1'; haystack 'wxyz'; group 1 (named n) participation symbolic" min_checks=50 w=2 timeout=900
    // exhaustive: templates 42..47 of the 156 templates of length <= 3 over {$,1,{,},n}: expand_replacement(template) == spec_expand(template) (`$$` -> `$`, `$N` with the maximal digit run -> group
    // text or nothing, `${name}` -> named group text or nothing, an unterminated `${` and everything else literal).
    #[kani::proof]
    #[kani::unwind(7)]
    fn j2c_all3_07() {
        let r = run_template("${1", false);
        assert!(r.0, "template `${{1`: expansion length equals the template specification");
        assert!(r.1, "template `${{1`: expansion content equals the template specification");
        let r = run_template("${{", false);
        assert!(r.0, "template `${{{{`: expansion length equals the template specification");
        assert!(r.1, "template `${{{{`: expansion content equals the template specification");
        let r = run_template("${}", false);
        assert!(r.0, "template `${{}}`: expansion length equals the template specification");
        assert!(r.1, "template `${{}}`: expansion content equals the template specification");
        let r = run_template("${n", false);
        assert!(r.0, "template `${{n`: expansion length equals the template specification");
        assert!(r.1, "template `${{n`: expansion content equals the template specification");
        let r = run_template("$}$", false);
        assert!(r.0, "template `$}}$`: expansion length equals the template specification");
        assert!(r.1, "template `$}}$`: expansion content equals the template specification");
        let r = run_template("$}1", false);
        assert!(r.0, "template `$}}1`: expansion length equals the template specification");
        assert!(r.1, "template `$}}1`: expansion content equals the template specification");
        kani::cover!(true, "end of the harness is reachable (vacuity guard)");
    }

    // @obligation name=j2c_all3_08 props=C17:t fn=api::Regex::expand_replacement,api::Match::group,api::Match::named_group kind=bounded bound="the 6 concrete templates '$}{' '$}}' '$}n' '$n$' '$n1' '$n{'; haystack 'wxyz'; group 1 (named n) participation symbolic" min_checks=50 w=2 timeout=900
    // exhaustive: templates 48..53 of the 156 templates of length <= 3 over {$,1,{,},n}: expand_replacement(template) == spec_expand(template) (`$$` -> `$`, `$N` with the maximal digit run -> group
    // text or nothing, `${name}` -> named group text or nothing, an unterminated `${` and everything else literal).
    #[kani::proof]
    #[kani::unwind(7)]
    fn j2c_all3_08() {
        let r = run_template("$}{", false);
        assert!(r.0, "template `$}}{{`: expansion length equals the template specification");
        assert!(r.1, "template `$}}{{`: expansion content equals the template specification");
        let r = run_template("$}}", false);
        assert!(r.0, "template `$}}}}`: expansion length equals the template specification");
        assert!(r.1, "template `$}}}}`: expansion content equals the template specification");
        let r = run_template("$}n", false);
        assert!(r.0, "template `$}}n`: expansion length equals the template specification");
        assert!(r.1, "template `$}}n`: expansion content equals the template specification");
        let r = run_template("$n$", false);
        assert!(r.0, "template `$n$`: expansion length equals the template specification");
        assert!(r.1, "template `$n$`: expansion content equals the template specification");
        let r = run_template("$n1", false);
        assert!(r.0, "template `$n1`: expansion length equals the template specification");
        assert!(r.1, "template `$n1`: expansion content equals the template specification");
        let r = run_template("$n{", false);
        assert!(r.0, "template `$n{{`: expansion length equals the template specification");
        assert!(r.1, "template `$n{{`: expansion content equals the template specification");
        kani::cover!(true, "end of the harness is reachable (vacuity guard)");
    }

    // @obligation name=j2c_all3_09 props=C17:t fn=api::Regex::expand_replacement,api::Match::group,api::Match::named_group kind=bounded bound="the 6 concrete templates '$n}' '$nn' '1$$' '1$1' '1${' '1$}'; haystack 'wxyz'; group 1 (named n) participation symbolic" min_checks=50 w=2 timeout=900
    // exhaustive: templates 54..59 of the 156 templates of length <= 3 over {$,1,{,},n}: expand_replacement(template) == spec_expand(template) (`$$` -> `$`, `$N` with the maximal digit run -> group
    // text or nothing, `${name}` -> named group text or nothing, an unterminated `${` and everything else literal).
    #[kani::proof]
    #[kani::unwind(7)]
    fn j2c_all3_09() {
        let r = run_template("$n}", false);
        assert!(r.0, "template `$n}}`: expansion length equals the template specification");
        assert!(r.1, "template `$n}}`: expansion content equals the template specification");
        let r = run_template("$nn", false);
        assert!(r.0, "template `$nn`: expansion length equals the template specification");
        assert!(r.1, "template `$nn`: expansion content equals the template specification");
        let r = run_template("1$$", false);
        assert!(r.0, "template `1$$`: expansion length equals the template specification");
        assert!(r.1, "template `1$$`: expansion content equals the template specification");
        let r = run_template("1$1", false);
        assert!(r.0, "template `1$1`: expansion length equals the template specification");
        assert!(r.1, "template `1$1`: expansion content equals the template specification");
        let r = run_template("1${", false);
        assert!(r.0, "template `1${{`: expansion length equals the template specification");
        assert!(r.1, "template `1${{`: expansion content equals the template specification");
        let r = run_template("1$}", false);
        assert!(r.0, "template `1$}}`: expansion length equals the template specification");
        assert!(r.1, "template `1$}}`: expansion content equals the template specification");
        kani::cover!(true, "end of the harness is reachable (vacuity guard)");
    }

    // @obligation name=j2c_all3_10 props=C17:t fn=api::Regex::expand_replacement,api::Match::group,api::Match::named_group kind=bounded bound="the 6 concrete templates '1$n' '11$' '111' '11{' '11}' '11n'; haystack 'wxyz'; group 1 (named n) participation symbolic" min_checks=50 w=2 timeout=900
    // exhaustive: templates 60..65 of the 156 templates of length <= 3 over {$,1,{,},n}: expand_replacement(template) == spec_expand(template) (`$$` -> `$`, `$N` with the maximal digit run -> group
    // text or nothing, `${name}` -> named group text or nothing, an unterminated `${` and everything else literal).
    #[kani::proof]
    #[kani::unwind(7)]
    fn j2c_all3_10() {
        let r = run_template("1$n", false);
        assert!(r.0, "template `1$n`: expansion length equals the template specification");
        assert!(r.1, "template `1$n`: expansion content equals the template specification");
        let r = run_template("11$", false);
        assert!(r.0, "template `11$`: expansion length equals the template specification");
        assert!(r.1, "template `11$`: expansion content equals the template specification");
        let r = run_template("111", false);
        assert!(r.0, "template `111`: expansion length equals the template specification");
        assert!(r.1, "template `111`: expansion content equals the template specification");
        let r = run_template("11{", false);
        assert!(r.0, "template `11{{`: expansion length equals the template specification");
        assert!(r.1, "template `11{{`: expansion content equals the template specification");
        let r = run_template("11}", false);
        assert!(r.0, "template `11}}`: expansion length equals the template specification");
        assert!(r.1, "template `11}}`: expansion content equals the template specification");
        let r = run_template("11n", false);
        assert!(r.0, "template `11n`: expansion length equals the template specification");
        assert!(r.1, "template `11n`: expansion content equals the template specification");
        kani::cover!(true, "end of the harness is reachable (vacuity guard)");
    }

    // @obligation name=j2c_all3_11 props=C17:t fn=api::Regex::expand_replacement,api::Match::group,api::Match::named_group kind=bounded bound="the 6 concrete templates '1{$' '1{1' '1{{' '1{}' '1{n' '1}$'; haystack 'wxyz'; group 1 (named n) participation symbolic" min_checks=50 w=2 timeout=900
    // exhaustive: templates 66..71 of the 156 templates of length <= 3 over {$,1,{,},n}: expand_replacement(template) == spec_expand(template) (`$$` -> `$`, `$N` with the maximal digit run -> group
    // text or nothing, `${name}` -> named group text or nothing, an unterminated `${` and everything else literal).
    #[kani::proof]
    #[kani::unwind(7)]
    fn j2c_all3_11() {
        let r = run_template("1{$", false);
        assert!(r.0, "template `1{{$`: expansion length equals the template specification");
        assert!(r.1, "template `1{{$`: expansion content equals the template specification");
        let r = run_template("1{1", false);
        assert!(r.0, "template `1{{1`: expansion length equals the template specification");
        assert!(r.1, "template `1{{1`: expansion content equals the template specification");
        let r = run_template("1{{", false);
        assert!(r.0, "template `1{{{{`: expansion length equals the template specification");
        assert!(r.1, "template `1{{{{`: expansion content equals the template specification");
        let r = run_template("1{}", false);
        assert!(r.0, "template `1{{}}`: expansion length equals the template specification");
        assert!(r.1, "template `1{{}}`: expansion content equals the template specification");
        let r = run_template("1{n", false);
        assert!(r.0, "template `1{{n`: expansion length equals the template specification");
        assert!(r.1, "template `1{{n`: expansion content equals the template specification");
        let r = run_template("1}$", false);
        assert!(r.0, "template `1}}$`: expansion length equals the template specification");
        assert!(r.1, "template `1}}$`: expansion content equals the template specification");
        kani::cover!(true, "end of the harness is reachable (vacuity guard)");
    }

    // @obligation name=j2c_all3_12 props=C17:t fn=api::Regex::expand_replacement,api::Match::group,api::Match::named_group kind=bounded bound="the 6 concrete templates '1}1' '1}{' '1}}' '1}n' '1n$' '1n1'; haystack 'wxyz'; group 1 (named n) participation symbolic" min_checks=50 w=2 timeout=900
    // exhaustive: templates 72..77 of the 156 templates of length <= 3 over {$,1,{,},n}: expand_replacement(template) == spec_expand(template) (`$$` -> `$`, `$N` with the maximal digit run -> group
    // text or nothing, `${name}` -> named group text or nothing, an unterminated `${` and everything else literal).
    #[kani::proof]
    #[kani::unwind(7)]
    fn j2c_all3_12() {
        let r = run_template("1}1", false);
        assert!(r.0, "template `1}}1`: expansion length equals the template specification");
        assert!(r.1, "template `1}}1`: expansion content equals the template specification");
        let r = run_template("1}{", false);
        assert!(r.0, "template `1}}{{`: expansion length equals the template specification");
        assert!(r.1, "template `1}}{{`: expansion content equals the template specification");
        let r = run_template("1}}", false);
        assert!(r.0, "template `1}}}}`: expansion length equals the template specification");
        assert!(r.1, "template `1}}}}`: expansion content equals the template specification");
        let r = run_template("1}n", false);
        assert!(r.0, "template `1}}n`: expansion length equals the template specification");
        assert!(r.1, "template `1}}n`: expansion content equals the template specification");
        let r = run_template("1n$", false);
        assert!(r.0, "template `1n$`: expansion length equals the template specification");
        assert!(r.1, "template `1n$`: expansion content equals the template specification");
        let r = run_template("1n1", false);
        assert!(r.0, "template `1n1`: expansion length equals the template specification");
        assert!(r.1, "template `1n1`: expansion content equals the template specification");
        kani::cover!(true, "end of the harness is reachable (vacuity guard)");
    }

    // @obligation name=j2c_all3_13 props=C17:t fn=api::Regex::expand_replacement,api::Match::group,api::Match::named_group kind=bounded bound="the 6 concrete templates '1n{' '1n}' '1nn' '{$$' '{$1' '{${'; haystack 'wxyz'; group 1 (named n) participation symbolic" min_checks=50 w=2 timeout=900
    // exhaustive: templates 78..83 of the 156 templates of length <= 3 over {$,1,{,},n}: expand_replacement(template) == spec_expand(template) (`$$` -> `$`, `$N` with the maximal digit run -> group
    // text or nothing, `${name}` -> named group text or nothing, an unterminated `${` and everything else literal).
    #[kani::proof]
    #[kani::unwind(7)]
    fn j2c_all3_13() {
        let r = run_template("1n{", false);
        assert!(r.0, "template `1n{{`: expansion length equals the template specification");
        assert!(r.1, "template `1n{{`: expansion content equals the template specification");
        let r = run_template("1n}", false);
        assert!(r.0, "template `1n}}`: expansion length equals the template specification");
        assert!(r.1, "template `1n}}`: expansion content equals the template specification");
        let r = run_template("1nn", false);
        assert!(r.0, "template `1nn`: expansion length equals the template specification");
        assert!(r.1, "template `1nn`: expansion content equals the template specification");
        let r = run_template("{$$", false);
        assert!(r.0, "template `{{$$`: expansion length equals the template specification");
        assert!(r.1, "template `{{$$`: expansion content equals the template specification");
        let r = run_template("{$1", false);
        assert!(r.0, "template `{{$1`: expansion length equals the template specification");
        assert!(r.1, "template `{{$1`: expansion content equals the template specification");
        let r = run_template("{${", false);
        assert!(r.0, "template `{{${{`: expansion length equals the template specification");
        assert!(r.1, "template `{{${{`: expansion content equals the template specification");
        kani::cover!(true, "end of the harness is reachable (vacuity guard)");
    }

    // @obligation name=j2c_all3_14 props=C17:t fn=api::Regex::expand_replacement,api::Match::group,api::Match::named_group kind=bounded bound="the 6 concrete templates '{$}' '{$n' '{1$' '{11' '{1{' '{1}'; haystack 'wxyz'; group 1 (named n) participation symbolic" min_checks=50 w=2 timeout=900
    // exhaustive: templates 84..89 of the 156 templates of length <= 3 over {$,1,{,},n}: expand_replacement(template) == spec_expand(template) (`$$` -> `$`, `$N` with the maximal digit run -> group
    // text or nothing, `${name}` -> named group text or nothing, an unterminated `${` and everything else literal).
    #[kani::proof]
    #[kani::unwind(7)]
    fn j2c_all3_14() {
        let r = run_template("{$}", false);
        assert!(r.0, "template `{{$}}`: expansion length equals the template specification");
        assert!(r.1, "template `{{$}}`: expansion content equals the template specification");
        let r = run_template("{$n", false);
        assert!(r.0, "template `{{$n`: expansion length equals the template specification");
        assert!(r.1, "template `{{$n`: expansion content equals the template specification");
        let r = run_template("{1$", false);
        assert!(r.0, "template `{{1$`: expansion length equals the template specification");
        assert!(r.1, "template `{{1$`: expansion content equals the template specification");
        let r = run_template("{11", false);
        assert!(r.0, "template `{{11`: expansion length equals the template specification");
        assert!(r.1, "template `{{11`: expansion content equals the template specification");
        let r = run_template("{1{", false);
        assert!(r.0, "template `{{1{{`: expansion length equals the template specification");
        assert!(r.1, "template `{{1{{`: expansion content equals the template specification");
        let r = run_template("{1}", false);
        assert!(r.0, "template `{{1}}`: expansion length equals the template specification");
        assert!(r.1, "template `{{1}}`: expansion content equals the template specification");
        kani::cover!(true, "end of the harness is reachable (vacuity guard)");
    }

    // @obligation name=j2c_all3_15 props=C17:t fn=api::Regex::expand_replacement,api::Match::group,api::Match::named_group kind=bounded bound="the 6 concrete templates '{1n' '{{$' '{{1' '{{{' '{{}' '{{n'; haystack 'wxyz'; group 1 (named n) participation symbolic" min_checks=50 w=2 timeout=900
    // exhaustive: templates 90..95 of the 156 templates of length <= 3 over {$,1,{,},n}: expand_replacement(template) == spec_expand(template) (`$$` -> `$`, `$N` with the maximal digit run -> group
    // text or nothing, `${name}` -> named group text or nothing, an unterminated `${` and everything else literal).
    #[kani::proof]
    #[kani::unwind(7)]
    fn j2c_all3_15() {
        let r = run_template("{1n", false);
        assert!(r.0, "template `{{1n`: expansion length equals the template specification");
        assert!(r.1, "template `{{1n`: expansion content equals the template specification");
        let r = run_template("{{$", false);
        assert!(r.0, "template `{{{{$`: expansion length equals the template specification");
        assert!(r.1, "template `{{{{$`: expansion content equals the template specification");
        let r = run_template("{{1", false);
        assert!(r.0, "template `{{{{1`: expansion length equals the template specification");
        assert!(r.1, "template `{{{{1`: expansion content equals the template specification");
        let r = run_template("{{{", false);
        assert!(r.0, "template `{{{{{{`: expansion length equals the template specification");
        assert!(r.1, "template `{{{{{{`: expansion content equals the template specification");
        let r = run_template("{{}", false);
        assert!(r.0, "template `{{{{}}`: expansion length equals the template specification");
        assert!(r.1, "template `{{{{}}`: expansion content equals the template specification");
        let r = run_template("{{n", false);
        assert!(r.0, "template `{{{{n`: expansion length equals the template specification");
        assert!(r.1, "template `{{{{n`: expansion content equals the template specification");
        kani::cover!(true, "end of the harness is reachable (vacuity guard)");
    }

    // @obligation name=j2c_all3_16 props=C17:t fn=api::Regex::expand_replacement,api::Match::group,api::Match::named_group kind=bounded bound="the 6 concrete templates '{}$' '{}1' '{}{' '{}}' '{}n' '{n$'; haystack 'wxyz'; group 1 (named n) participation symbolic" min_checks=50 w=2 timeout=900
    // exhaustive: templates 96..101 of the 156 templates of length <= 3 over {$,1,{,},n}: expand_replacement(template) == spec_expand(template) (`$$` -> `$`, `$N` with the maximal digit run -> group
    // text or nothing, `${name}` -> named group text or nothing, an unterminated `${` and everything else literal).
    #[kani::proof]
    #[kani::unwind(7)]
    fn j2c_all3_16() {
        let r = run_template("{}$", false);
        assert!(r.0, "template `{{}}$`: expansion length equals the template specification");
        assert!(r.1, "template `{{}}$`: expansion content equals the template specification");
        let r = run_template("{}1", false);
        assert!(r.0, "template `{{}}1`: expansion length equals the template specification");
        assert!(r.1, "template `{{}}1`: expansion content equals the template specification");
        let r = run_template("{}{", false);
        assert!(r.0, "template `{{}}{{`: expansion length equals the template specification");
        assert!(r.1, "template `{{}}{{`: expansion content equals the template specification");
        let r = run_template("{}}", false);
        assert!(r.0, "template `{{}}}}`: expansion length equals the template specification");
        assert!(r.1, "template `{{}}}}`: expansion content equals the template specification");
        let r = run_template("{}n", false);
        assert!(r.0, "template `{{}}n`: expansion length equals the template specification");
        assert!(r.1, "template `{{}}n`: expansion content equals the template specification");
        let r = run_template("{n$", false);
        assert!(r.0, "template `{{n$`: expansion length equals the template specification");
        assert!(r.1, "template `{{n$`: expansion content equals the template specification");
        kani::cover!(true, "end of the harness is reachable (vacuity guard)");
    }

    // @obligation name=j2c_all3_17 props=C17:t fn=api::Regex::expand_replacement,api::Match::group,api::Match::named_group kind=bounded bound="the 6 concrete templates '{n1' '{n{' '{n}' '{nn' '}$$' '}$1'; haystack 'wxyz'; group 1 (named n) participation symbolic" min_checks=50 w=2 timeout=900
    // exhaustive: templates 102..107 of the 156 templates of length <= 3 over {$,1,{,},n}: expand_replacement(template) == spec_expand(template) (`$$` -> `$`, `$N` with the maximal digit run -> group
    // text or nothing, `${name}` -> named group text or nothing, an unterminated `${` and everything else literal).
    #[kani::proof]
    #[kani::unwind(7)]
    fn j2c_all3_17() {
        let r = run_template("{n1", false);
        assert!(r.0, "template `{{n1`: expansion length equals the template specification");
        assert!(r.1, "template `{{n1`: expansion content equals the template specification");
        let r = run_template("{n{", false);
        assert!(r.0, "template `{{n{{`: expansion length equals the template specification");
        assert!(r.1, "template `{{n{{`: expansion content equals the template specification");
        let r = run_template("{n}", false);
        assert!(r.0, "template `{{n}}`: expansion length equals the template specification");
        assert!(r.1, "template `{{n}}`: expansion content equals the template specification");
        let r = run_template("{nn", false);
        assert!(r.0, "template `{{nn`: expansion length equals the template specification");
        assert!(r.1, "template `{{nn`: expansion content equals the template specification");
        let r = run_template("}$$", false);
        assert!(r.0, "template `}}$$`: expansion length equals the template specification");
        assert!(r.1, "template `}}$$`: expansion content equals the template specification");
        let r = run_template("}$1", false);
        assert!(r.0, "template `}}$1`: expansion length equals the template specification");
        assert!(r.1, "template `}}$1`: expansion content equals the template specification");
        kani::cover!(true, "end of the harness is reachable (vacuity guard)");
    }

    // @obligation name=j2c_all3_18 props=C17:t fn=api::Regex::expand_replacement,api::Match::group,api::Match::named_group kind=bounded bound="the 6 concrete templates '}${' '}$}' '}$n' '}1$' '}11' '}1{'; haystack 'wxyz'; group 1 (named n) participation symbolic" min_checks=50 w=2 timeout=900
    // exhaustive: templates 108..113 of the 156 templates of length <= 3 over {$,1,{,},n}: expand_replacement(template) == spec_expand(template) (`$$` -> `$`, `$N` with the maximal digit run -> group
    // text or nothing, `${name}` -> named group text or nothing, an unterminated `${` and everything else literal).
    #[kani::proof]
    #[kani::unwind(7)]
    fn j2c_all3_18() {
        let r = run_template("}${", false);
        assert!(r.0, "template `}}${{`: expansion length equals the template specification");
        assert!(r.1, "template `}}${{`: expansion content equals the template specification");
        let r = run_template("}$}", false);
        assert!(r.0, "template `}}$}}`: expansion length equals the template specification");
        assert!(r.1, "template `}}$}}`: expansion content equals the template specification");
        let r = run_template("}$n", false);
        assert!(r.0, "template `}}$n`: expansion length equals the template specification");
        assert!(r.1, "template `}}$n`: expansion content equals the template specification");
        let r = run_template("}1$", false);
        assert!(r.0, "template `}}1$`: expansion length equals the template specification");
        assert!(r.1, "template `}}1$`: expansion content equals the template specification");
        let r = run_template("}11", false);
        assert!(r.0, "template `}}11`: expansion length equals the template specification");
        assert!(r.1, "template `}}11`: expansion content equals the template specification");
        let r = run_template("}1{", false);
        assert!(r.0, "template `}}1{{`: expansion length equals the template specification");
        assert!(r.1, "template `}}1{{`: expansion content equals the template specification");
        kani::cover!(true, "end of the harness is reachable (vacuity guard)");
    }

    // @obligation name=j2c_all3_19 props=C17:t fn=api::Regex::expand_replacement,api::Match::group,api::Match::named_group kind=bounded bound="the 6 concrete templates '}1}' '}1n' '}{$' '}{1' '}{{' '}{}'; haystack 'wxyz'; group 1 (named n) participation symbolic" min_checks=50 w=2 timeout=900
    // exhaustive: templates 114..119 of the 156 templates of length <= 3 over {$,1,{,},n}: expand_replacement(template) == spec_expand(template) (`$$` -> `$`, `$N` with the maximal digit run -> group
    // text or nothing, `${name}` -> named group text or nothing, an unterminated `${` and everything else literal).
    #[kani::proof]
    #[kani::unwind(7)]
    fn j2c_all3_19() {
        let r = run_template("}1}", false);
        assert!(r.0, "template `}}1}}`: expansion length equals the template specification");
        assert!(r.1, "template `}}1}}`: expansion content equals the template specification");
        let r = run_template("}1n", false);
        assert!(r.0, "template `}}1n`: expansion length equals the template specification");
        assert!(r.1, "template `}}1n`: expansion content equals the template specification");
        let r = run_template("}{$", false);
        assert!(r.0, "template `}}{{$`: expansion length equals the template specification");
        assert!(r.1, "template `}}{{$`: expansion content equals the template specification");
        let r = run_template("}{1", false);
        assert!(r.0, "template `}}{{1`: expansion length equals the template specification");
        assert!(r.1, "template `}}{{1`: expansion content equals the template specification");
        let r = run_template("}{{", false);
        assert!(r.0, "template `}}{{{{`: expansion length equals the template specification");
        assert!(r.1, "template `}}{{{{`: expansion content equals the template specification");
        let r = run_template("}{}", false);
        assert!(r.0, "template `}}{{}}`: expansion length equals the template specification");
        assert!(r.1, "template `}}{{}}`: expansion content equals the template specification");
        kani::cover!(true, "end of the harness is reachable (vacuity guard)");
    }

    // @obligation name=j2c_all3_20 props=C17:t fn=api::Regex::expand_replacement,api::Match::group,api::Match::named_group kind=bounded bound="the 6 concrete templates '}{n' '}}$' '}}1' '}}{' '}}}' '}}n'; haystack 'wxyz'; group 1 (named n) participation symbolic" min_checks=50 w=2 timeout=900
    // exhaustive: templates 120..125 of the 156 templates of length <= 3 over {$,1,{,},n}: expand_replacement(template) == spec_expand(template) (`$$` -> `$`, `$N` with the maximal digit run -> group
    // text or nothing, `${name}` -> named group text or nothing, an unterminated `${` and everything else literal).
    #[kani::proof]
    #[kani::unwind(7)]
    fn j2c_all3_20() {
        let r = run_template("}{n", false);
        assert!(r.0, "template `}}{{n`: expansion length equals the template specification");
        assert!(r.1, "template `}}{{n`: expansion content equals the template specification");
        let r = run_template("}}$", false);
        assert!(r.0, "template `}}}}$`: expansion length equals the template specification");
        assert!(r.1, "template `}}}}$`: expansion content equals the template specification");
        let r = run_template("}}1", false);
        assert!(r.0, "template `}}}}1`: expansion length equals the template specification");
        assert!(r.1, "template `}}}}1`: expansion content equals the template specification");
        let r = run_template("}}{", false);
        assert!(r.0, "template `}}}}{{`: expansion length equals the template specification");
        assert!(r.1, "template `}}}}{{`: expansion content equals the template specification");
        let r = run_template("}}}", false);
        assert!(r.0, "template `}}}}}}`: expansion length equals the template specification");
        assert!(r.1, "template `}}}}}}`: expansion content equals the template specification");
        let r = run_template("}}n", false);
        assert!(r.0, "template `}}}}n`: expansion length equals the template specification");
        assert!(r.1, "template `}}}}n`: expansion content equals the template specification");
        kani::cover!(true, "end of the harness is reachable (vacuity guard)");
    }

    // @obligation name=j2c_all3_21 props=C17:t fn=api::Regex::expand_replacement,api::Match::group,api::Match::named_group kind=bounded bound="the 6 concrete templates '}n$' '}n1' '}n{' '}n}' '}nn' 'n$$'; haystack 'wxyz'; group 1 (named n) participation symbolic" min_checks=50 w=2 timeout=900
    // exhaustive: templates 126..131 of the 156 templates of length <= 3 over {$,1,{,},n}: expand_replacement(template) == spec_expand(template) (`$$` -> `$`, `$N` with the maximal digit run -> group
    // text or nothing, `${name}` -> named group text or nothing, an unterminated `${` and everything else literal).
    #[kani::proof]
    #[kani::unwind(7)]
    fn j2c_all3_21() {
        let r = run_template("}n$", false);
        assert!(r.0, "template `}}n$`: expansion length equals the template specification");
        assert!(r.1, "template `}}n$`: expansion content equals the template specification");
        let r = run_template("}n1", false);
        assert!(r.0, "template `}}n1`: expansion length equals the template specification");
        assert!(r.1, "template `}}n1`: expansion content equals the template specification");
        let r = run_template("}n{", false);
        assert!(r.0, "template `}}n{{`: expansion length equals the template specification");
        assert!(r.1, "template `}}n{{`: expansion content equals the template specification");
        let r = run_template("}n}", false);
        assert!(r.0, "template `}}n}}`: expansion length equals the template specification");
        assert!(r.1, "template `}}n}}`: expansion content equals the template specification");
        let r = run_template("}nn", false);
        assert!(r.0, "template `}}nn`: expansion length equals the template specification");
        assert!(r.1, "template `}}nn`: expansion content equals the template specification");
        let r = run_template("n$$", false);
        assert!(r.0, "template `n$$`: expansion length equals the template specification");
        assert!(r.1, "template `n$$`: expansion content equals the template specification");
        kani::cover!(true, "end of the harness is reachable (vacuity guard)");
    }

    // @obligation name=j2c_all3_22 props=C17:t fn=api::Regex::expand_replacement,api::Match::group,api::Match::named_group kind=bounded bound="the 6 concrete templates 'n$1' 'n${' 'n$}' 'n$n' 'n1$' 'n11'; haystack 'wxyz'; group 1 (named n) participation symbolic" min_checks=50 w=2 timeout=900
    // exhaustive: templates 132..137 of the 156 templates of length <= 3 over {$,1,{,},n}: expand_replacement(template) == spec_expand(template) (`$$` -> `$`, `$N` with the maximal digit run -> group
    // text or nothing, `${name}` -> named group text or nothing, an unterminated `${` and everything else literal).
    #[kani::proof]
    #[kani::unwind(7)]
    fn j2c_all3_22() {
        let r = run_template("n$1", false);
        assert!(r.0, "template `n$1`: expansion length equals the template specification");
        assert!(r.1, "template `n$1`: expansion content equals the template specification");
        let r = run_template("n${", false);
        assert!(r.0, "template `n${{`: expansion length equals the template specification");
        assert!(r.1, "template `n${{`: expansion content equals the template specification");
        let r = run_template("n$}", false);
        assert!(r.0, "template `n$}}`: expansion length equals the template specification");
        assert!(r.1, "template `n$}}`: expansion content equals the template specification");
        let r = run_template("n$n", false);
        assert!(r.0, "template `n$n`: expansion length equals the template specification");
        assert!(r.1, "template `n$n`: expansion content equals the template specification");
        let r = run_template("n1$", false);
        assert!(r.0, "template `n1$`: expansion length equals the template specification");
        assert!(r.1, "template `n1$`: expansion content equals the template specification");
        let r = run_template("n11", false);
        assert!(r.0, "template `n11`: expansion length equals the template specification");
        assert!(r.1, "template `n11`: expansion content equals the template specification");
        kani::cover!(true, "end of the harness is reachable (vacuity guard)");
    }

    // @obligation name=j2c_all3_23 props=C17:t fn=api::Regex::expand_replacement,api::Match::group,api::Match::named_group kind=bounded bound="the 6 concrete templates 'n1{' 'n1}' 'n1n' 'n{$' 'n{1' 'n{{'; haystack 'wxyz'; group 1 (named n) participation symbolic" min_checks=50 w=2 timeout=900
    // exhaustive: templates 138..143 of the 156 templates of length <= 3 over {$,1,{,},n}: expand_replacement(template) == spec_expand(template) (`$$` -> `$`, `$N` with the maximal digit run -> group
    // text or nothing, `${name}` -> named group text or nothing, an unterminated `${` and everything else literal).
    #[kani::proof]
    #[kani::unwind(7)]
    fn j2c_all3_23() {
        let r = run_template("n1{", false);
        assert!(r.0, "template `n1{{`: expansion length equals the template specification");
        assert!(r.1, "template `n1{{`: expansion content equals the template specification");
        let r = run_template("n1}", false);
        assert!(r.0, "template `n1}}`: expansion length equals the template specification");
        assert!(r.1, "template `n1}}`: expansion content equals the template specification");
        let r = run_template("n1n", false);
        assert!(r.0, "template `n1n`: expansion length equals the template specification");
        assert!(r.1, "template `n1n`: expansion content equals the template specification");
        let r = run_template("n{$", false);
        assert!(r.0, "template `n{{$`: expansion length equals the template specification");
        assert!(r.1, "template `n{{$`: expansion content equals the template specification");
        let r = run_template("n{1", false);
        assert!(r.0, "template `n{{1`: expansion length equals the template specification");
        assert!(r.1, "template `n{{1`: expansion content equals the template specification");
        let r = run_template("n{{", false);
        assert!(r.0, "template `n{{{{`: expansion length equals the template specification");
        assert!(r.1, "template `n{{{{`: expansion content equals the template specification");
        kani::cover!(true, "end of the harness is reachable (vacuity guard)");
    }

    // @obligation name=j2c_all3_24 props=C17:t fn=api::Regex::expand_replacement,api::Match::group,api::Match::named_group kind=bounded bound="the 6 concrete templates 'n{}' 'n{n' 'n}$' 'n}1' 'n}{' 'n}}'; haystack 'wxyz'; group 1 (named n) participation symbolic" min_checks=50 w=2 timeout=900
    // exhaustive: templates 144..149 of the 156 templates of length <= 3 over {$,1,{,},n}: expand_replacement(template) == spec_expand(template) (`$$` -> `$`, `$N` with the maximal digit run -> group
    // text or nothing, `${name}` -> named group text or nothing, an unterminated `${` and everything else literal).
    #[kani::proof]
    #[kani::unwind(7)]
    fn j2c_all3_24() {
        let r = run_template("n{}", false);
        assert!(r.0, "template `n{{}}`: expansion length equals the template specification");
        assert!(r.1, "template `n{{}}`: expansion content equals the template specification");
        let r = run_template("n{n", false);
        assert!(r.0, "template `n{{n`: expansion length equals the template specification");
        assert!(r.1, "template `n{{n`: expansion content equals the template specification");
        let r = run_template("n}$", false);
        assert!(r.0, "template `n}}$`: expansion length equals the template specification");
        assert!(r.1, "template `n}}$`: expansion content equals the template specification");
        let r = run_template("n}1", false);
        assert!(r.0, "template `n}}1`: expansion length equals the template specification");
        assert!(r.1, "template `n}}1`: expansion content equals the template specification");
        let r = run_template("n}{", false);
        assert!(r.0, "template `n}}{{`: expansion length equals the template specification");
        assert!(r.1, "template `n}}{{`: expansion content equals the template specification");
        let r = run_template("n}}", false);
        assert!(r.0, "template `n}}}}`: expansion length equals the template specification");
        assert!(r.1, "template `n}}}}`: expansion content equals the template specification");
        kani::cover!(true, "end of the harness is reachable (vacuity guard)");
    }

    // @obligation name=j2c_all3_25 props=C17:t fn=api::Regex::expand_replacement,api::Match::group,api::Match::named_group kind=bounded bound="the 6 concrete templates 'n}n' 'nn$' 'nn1' 'nn{' 'nn}' 'nnn'; haystack 'wxyz'; group 1 (named n) participation symbolic" min_checks=50 w=2 timeout=900
    // exhaustive: templates 150..155 of the 156 templates of length <= 3 over {$,1,{,},n}: expand_replacement(template) == spec_expand(template) (`$$` -> `$`, `$N` with the maximal digit run -> group
    // text or nothing, `${name}` -> named group text or nothing, an unterminated `${` and everything else literal).
    #[kani::proof]
    #[kani::unwind(7)]
    fn j2c_all3_25() {
        let r = run_template("n}n", false);
        assert!(r.0, "template `n}}n`: expansion length equals the template specification");
        assert!(r.1, "template `n}}n`: expansion content equals the template specification");
        let r = run_template("nn$", false);
        assert!(r.0, "template `nn$`: expansion length equals the template specification");
        assert!(r.1, "template `nn$`: expansion content equals the template specification");
        let r = run_template("nn1", false);
        assert!(r.0, "template `nn1`: expansion length equals the template specification");
        assert!(r.1, "template `nn1`: expansion content equals the template specification");
        let r = run_template("nn{", false);
        assert!(r.0, "template `nn{{`: expansion length equals the template specification");
        assert!(r.1, "template `nn{{`: expansion content equals the template specification");
        let r = run_template("nn}", false);
        assert!(r.0, "template `nn}}`: expansion length equals the template specification");
        assert!(r.1, "template `nn}}`: expansion content equals the template specification");
        let r = run_template("nnn", false);
        assert!(r.0, "template `nnn`: expansion length equals the template specification");
        assert!(r.1, "template `nnn`: expansion content equals the template specification");
        kani::cover!(true, "end of the harness is reachable (vacuity guard)");
    }

    // END GENERATED j2c

    fn sym_template<const N: usize>(buf: &mut [u8; N]) {
        let alpha = [b'$', b'0', b'1', b'7', b'{', b'}', b'n', b'a'];
        let mut i = 0;
        while i < N {
            let k: usize = kani::any();
            kani::assume(k < 8);
            buf[i] = alpha[k];
            i += 1;
        }
    }

    // @obligation name=j2s_expand_sym2 props= fn=api::Regex::expand_replacement kind=bounded bound="templates of 2 symbolic characters over {$,0,1,7,{,},n,a}" min_checks=50 w=2 timeout=900
    // (disabled: does not close in 900 s - Peekable<Chars> over symbolic bytes) expansion == template specification
    #[kani::proof]
    #[kani::unwind(12)]
    fn j2s_expand_sym2() {
        let mut b = [0u8; 2];
        sym_template(&mut b);
        check_template(unsafe { core::str::from_utf8_unchecked(&b) }, false);
    }

    // @obligation name=j2s_expand_sym3 props= fn=api::Regex::expand_replacement kind=bounded bound="templates of 3 symbolic characters over {$,0,1,7,{,},n,a}" min_checks=50 w=2 timeout=900
    // (disabled: does not close in 900 s) expansion == template specification
    #[kani::proof]
    #[kani::unwind(12)]
    fn j2s_expand_sym3() {
        let mut b = [0u8; 3];
        sym_template(&mut b);
        check_template(unsafe { core::str::from_utf8_unchecked(&b) }, false);
    }

    // ---- C17: the splice loop of replace_all_with / replace_with over the match sequence ----
    use crate::classicalbacktrack::__verif::{init_oracle, next_boundary, ORACLE};

    fn first_match_from(cur: usize, len: usize, bnd: &[bool; 5]) -> Option<(usize, usize)> {
        let mut p = cur;
        loop {
            if let Some(e) = unsafe { ORACLE[p] } { return Some((p, e)); }
            match next_boundary(p, len, bnd) { Some(q) => p = q, None => return None }
        }
    }

    /// Splice specification: the haystack with every match of the unfold sequence (first match at or after the cursor;
    /// cursor := end, or one character further after an empty match - the contract of Matches proved by f3_*) replaced by
    /// `#`, everything else copied. `first_only` stops after one match (replace_with).
    fn spec_splice(text: &[u8], len: usize, bnd: &[bool; 5], first_only: bool, out: &mut [u8; 16]) -> usize {
        let mut n = 0;
        let mut last = 0;
        let mut cur = Some(0usize);
        while let Some(c) = cur {
            match first_match_from(c, len, bnd) {
                None => break,
                Some((s, e)) => {
                    let mut k = last;
                    while k < s { out[n] = text[k]; n += 1; k += 1; }
                    out[n] = b'#';
                    n += 1;
                    last = e;
                    cur = if first_only { None } else if e != s { Some(e) } else { next_boundary(e, len, bnd) };
                }
            }
        }
        let mut k = last;
        while k < len { out[n] = text[k]; n += 1; k += 1; }
        n
    }

    fn j3_check(two: bool, first_only: bool) {
        let re = regex_goal();
        let text: &'static str = if two { "a\u{e9}" } else { "ab" };
        let (len, bnd) = j3_hay(two);
        let out = if first_only { re.replace_with(text, |_m| String::from("#")) } else { re.replace_all_with(text, |_m| String::from("#")) };
        let mut exp = [0u8; 16];
        let n = spec_splice(text.as_bytes(), len, &bnd, first_only, &mut exp);
        let ob = out.as_bytes();
        assert!(ob.len() == n, "spliced length equals the splice specification");
        let k: usize = kani::any();
        if k < n {
            assert!(ob[k] == exp[k], "spliced content equals the splice specification");
        }
        core::mem::forget(out);
    }

    fn j3_hay(two: bool) -> (usize, [bool; 5]) {
        if two { (3usize, [true, true, false, true, false]) } else { (2usize, [true, true, true, false, false]) }
    }

    /// symbolic oracle (replace_with: one search)
    fn j3_body(two: bool, first_only: bool) {
        let (len, bnd) = j3_hay(two);
        init_oracle(len, &bnd);
        j3_check(two, first_only);
        kani::cover!(unsafe { ORACLE[0].is_none() && ORACLE[1].is_some() }, "a match after a gap");
    }

    /// concrete oracle table: the match (end offset) reported at each of the three boundaries b0 < b1 < b2 of the haystack
    fn j3_table(two: bool, o0: Option<usize>, o1: Option<usize>, o2: Option<usize>) {
        let (b1, b2) = if two { (1, 3) } else { (1, 2) };
        unsafe {
            ORACLE = [None; 5];
            ORACLE[0] = o0;
            ORACLE[b1] = o1;
            ORACLE[b2] = o2;
            crate::classicalbacktrack::__verif::LOG_N = 0;
        }
        j3_check(two, false);
    }

    // @obligation name=j3_replace_with_first props=C17 fn=api::Regex::replace_with,api::Regex::find kind=bounded bound="haystack \"a\u{e9}\"; every oracle; closure result \"#\"" min_checks=300 w=2 timeout=1500 ignore_free_model=1
    // replace_with replaces exactly the first match and preserves the rest; no match -> unchanged.
    #[kani::proof]
    #[kani::unwind(8)]
    #[kani::stub(crate::classicalbacktrack::MatchAttempter::try_at_pos, crate::classicalbacktrack::__verif::oracle_try_at_pos)]
    #[kani::stub(crate::classicalbacktrack::BacktrackExecutor::successful_match, crate::classicalbacktrack::__verif::sm_stub)]
    fn j3_replace_with_first() {
        j3_body(true, true);
    }

    // @obligation name=j3_replace_template_first props=C17 fn=api::Regex::replace,api::Regex::find,api::Regex::expand_replacement kind=bounded bound="haystack \"a\u{e9}\"; every oracle (every possible first match); template \"[$0]\"" min_checks=300 w=2 timeout=1500 ignore_free_model=1
    // replace == haystack[..s] ++ "[" ++ haystack[s..e] ++ "]" ++ haystack[e..] for the first match s..e, and the haystack
    // itself when there is no match (template expansion spliced at the match, everything else preserved byte for byte).
    #[kani::proof]
    #[kani::unwind(8)]
    #[kani::stub(crate::classicalbacktrack::MatchAttempter::try_at_pos, crate::classicalbacktrack::__verif::oracle_try_at_pos)]
    #[kani::stub(crate::classicalbacktrack::BacktrackExecutor::successful_match, crate::classicalbacktrack::__verif::sm_stub)]
    fn j3_replace_template_first() {
        let re = regex_goal();
        let text: &'static str = "a\u{e9}";
        let (len, bnd) = j3_hay(true);
        init_oracle(len, &bnd);
        let out = re.replace(text, "[$0]");
        let tb = text.as_bytes();
        let mut exp = [0u8; 16];
        let mut n = 0;
        match first_match_from(0, len, &bnd) {
            None => { while n < len { exp[n] = tb[n]; n += 1; } }
            Some((s, e)) => {
                let mut k = 0;
                while k < s { exp[n] = tb[k]; n += 1; k += 1; }
                exp[n] = b'['; n += 1;
                while k < e { exp[n] = tb[k]; n += 1; k += 1; }
                exp[n] = b']'; n += 1;
                while k < len { exp[n] = tb[k]; n += 1; k += 1; }
            }
        }
        let ob = out.as_bytes();
        assert!(ob.len() == n, "replace: length equals the splice-and-expand specification");
        let k: usize = kani::any();
        if k < n {
            assert!(ob[k] == exp[k], "replace: content equals the splice-and-expand specification");
        }
        core::mem::forget(out);
        kani::cover!(n == len, "no match: haystack unchanged");
        kani::cover!(n == len + 2 && exp[1] == b'[', "match after a gap");
    }

    // ---- C17: replace_all / replace_all_with against the splice specification, modular in the match iterator ----
    pub(crate) static mut SCRIPT: [(usize, usize); 4] = [(0, 0); 4];
    pub(crate) static mut SCRIPT_N: usize = 0;
    pub(crate) static mut SCRIPT_I: usize = 0;

    /// Contract stub of BacktrackExecutor::next_match_with_prefix_search (its contract is the Verus unit cv_drivers): the
    /// first scripted match starting at or after `pos`, cursor := its end, or one character further after an empty match.
    pub(crate) fn scripted_search<'r, Input: crate::indexing::InputIndexer, PrefixSearch: crate::bytesearch::ByteSearcher>(
        this: &mut crate::classicalbacktrack::BacktrackExecutor<'r, Input>, pos: Input::Position,
        next_start: &mut Option<Input::Position>, _ps: &PrefixSearch,
    ) -> Option<Match> where 'r: 'r {
        let inp = crate::classicalbacktrack::__verif::input_of(this);
        let off = inp.pos_to_offset(pos);
        unsafe {
            while SCRIPT_I < SCRIPT_N && SCRIPT[SCRIPT_I].0 < off {
                SCRIPT_I += 1;
            }
            if SCRIPT_I < SCRIPT_N {
                let (a, b) = SCRIPT[SCRIPT_I];
                SCRIPT_I += 1;
                let endp = inp.left_end() + b;
                *next_start = if a != b { Some(endp) } else { inp.next_right_pos(endp) };
                Some(Match { range: a..b, captures: Vec::new(), group_names: Box::new([]) })
            } else {
                None
            }
        }
    }

    /// An arbitrary match sequence the iterator contract allows on a haystack: n <= 3 matches on character boundaries, each
    /// starting at or after the cursor left by the previous one (its end, or one character further after an empty match).
    pub(crate) fn any_script(len: usize, bnd: &[bool; 5]) -> usize {
        let n: usize = kani::any();
        kani::assume(n <= 3);
        let mut cursor: Option<usize> = Some(0);
        let mut i = 0;
        while i < 3 {
            if i < n {
                let a: usize = kani::any();
                let b: usize = kani::any();
                kani::assume(a <= b && b <= len && bnd[a] && bnd[b]);
                match cursor {
                    Some(c) => kani::assume(a >= c),
                    None => kani::assume(false),
                }
                unsafe { SCRIPT[i] = (a, b); }
                cursor = if a != b { Some(b) } else { next_boundary(b, len, bnd) };
            }
            i += 1;
        }
        unsafe { SCRIPT_N = n; SCRIPT_I = 0; }
        n
    }

    /// Splice specification over the scripted sequence: each match replaced by `open ++ (its own text if keep) ++ close`.
    fn spec_splice_script(text: &[u8], len: usize, n: usize, open: &[u8], keep: bool, close: &[u8], out: &mut [u8; 24]) -> usize {
        let mut k = 0;
        let mut last = 0;
        let mut i = 0;
        while i < n {
            let (a, b) = unsafe { SCRIPT[i] };
            let mut p = last;
            while p < a { out[k] = text[p]; k += 1; p += 1; }
            let mut q = 0;
            while q < open.len() { out[k] = open[q]; k += 1; q += 1; }
            if keep {
                let mut p = a;
                while p < b { out[k] = text[p]; k += 1; p += 1; }
            }
            let mut q = 0;
            while q < close.len() { out[k] = close[q]; k += 1; q += 1; }
            last = b;
            i += 1;
        }
        let mut p = last;
        while p < len { out[k] = text[p]; k += 1; p += 1; }
        k
    }

    fn j3_all_body(which: u8) {
        let re = regex_goal();
        let text: &'static str = "a\u{e9}b";
        let (len, bnd) = (4usize, [true, true, false, true, true]);
        let n = any_script(len, &bnd);
        let mut exp = [0u8; 24];
        let (out, m) = match which {
            0 => (re.replace_all_with(text, |_m| String::from("#")), spec_splice_script(text.as_bytes(), len, n, b"#", false, b"", &mut exp)),
            1 => (re.replace_all_with(text, |m| String::from(&text[m.range()])), spec_splice_script(text.as_bytes(), len, n, b"", true, b"", &mut exp)),
            2 => (re.replace_all(text, "[$0]"), spec_splice_script(text.as_bytes(), len, n, b"[", true, b"]", &mut exp)),
            _ => (re.replace_all(text, "#"), spec_splice_script(text.as_bytes(), len, n, b"#", false, b"", &mut exp)),
        };
        let ob = out.as_bytes();
        assert!(ob.len() == m, "replace_all*: length equals the splice specification");
        let k: usize = kani::any();
        if k < m {
            assert!(ob[k] == exp[k], "replace_all*: content equals the splice specification");
        }
        if which == 1 {
            assert!(ob.len() == len, "replacing every match by its own text is the identity");
        }
        core::mem::forget(out);
        kani::cover!(n == 0, "no match: the haystack is returned unchanged");
        kani::cover!(n == 3 && unsafe { SCRIPT[0] == (0, 0) && SCRIPT[1].0 == 1 }, "adjacent and empty matches");
    }

    // @obligation name=j3_replace_all_with_marker props=C17 fn=api::Regex::replace_all_with,api::Regex::find_iter,exec::Matches::next,classicalbacktrack::BacktrackExecutor::next_match kind=bounded bound="haystack \"a\u{e9}b\" (4 bytes, a 2-byte char); EVERY match sequence of up to 3 matches the iterator contract allows (symbolic ranges on boundaries, empty and adjacent matches included); closure result \"#\"; the search driver next_match_with_prefix_search is replaced by its contract (Verus unit cv_drivers)" min_checks=300 w=2 timeout=1500 ignore_free_model=1
    // replace_all_with == splice specification: every match of the sequence replaced by the closure's result, all unmatched
    // text preserved byte for byte and in order; no match -> the haystack unchanged.
    #[kani::proof]
    #[kani::unwind(6)]
    #[kani::stub(crate::classicalbacktrack::BacktrackExecutor::next_match_with_prefix_search, scripted_search)]
    fn j3_replace_all_with_marker() {
        j3_all_body(0);
    }

    // @obligation name=j3_replace_all_with_identity props=C17 fn=api::Regex::replace_all_with kind=bounded bound="as j3_replace_all_with_marker; closure result = the match's own text" min_checks=300 w=2 timeout=1500 ignore_free_model=1
    // Replacing every match by its own text is the identity.
    #[kani::proof]
    #[kani::unwind(6)]
    #[kani::stub(crate::classicalbacktrack::BacktrackExecutor::next_match_with_prefix_search, scripted_search)]
    fn j3_replace_all_with_identity() {
        j3_all_body(1);
    }

    // @obligation name=j3_replace_all_template props=C17:t fn=api::Regex::replace_all,api::Regex::expand_replacement kind=bounded bound="as j3_replace_all_with_marker; template \"[$0]\"" min_checks=300 w=2 timeout=1500 ignore_free_model=1
    // replace_all == splice specification with each match replaced by the template's expansion "[" ++ match text ++ "]".
    #[kani::proof]
    #[kani::unwind(6)]
    #[kani::stub(crate::classicalbacktrack::BacktrackExecutor::next_match_with_prefix_search, scripted_search)]
    fn j3_replace_all_template() {
        j3_all_body(2);
    }

    // @obligation name=j3_replace_all_literal props=C17 fn=api::Regex::replace_all,api::Regex::expand_replacement kind=bounded bound="as j3_replace_all_with_marker; template \"#\" (no references)" min_checks=300 w=2 timeout=1500 ignore_free_model=1
    // replace_all == splice specification with each match replaced by the literal template.
    #[kani::proof]
    #[kani::unwind(6)]
    #[kani::stub(crate::classicalbacktrack::BacktrackExecutor::next_match_with_prefix_search, scripted_search)]
    fn j3_replace_all_literal() {
        j3_all_body(3);
    }
}
