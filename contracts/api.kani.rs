// Contracts for src/api.rs: Match accessors (J1), replacement template expansion (J2), splice (J3), escape (J4).
#[cfg(kani)]
pub(crate) mod __verif {
    use super::*;

    fn any_range(max: usize) -> Option<Range> {
        if kani::any() {
            let a: usize = kani::any();
            let b: usize = kani::any();
            kani::assume(a <= b && b <= max);
            Some(a..b)
        } else {
            None
        }
    }

    fn name_of(k: u8) -> &'static str {
        match k {
            0 => "",
            1 => "a",
            _ => "b",
        }
    }

    // @obligation name=j1_group_accessors props=C16 fn=api::Match::group,api::Match::groups,api::Groups::next,api::Match::range,api::Match::start,api::Match::end kind=bounded bound="Match with 2 capture slots, symbolic ranges" min_checks=50 w=2 timeout=900
    // group(0) is the whole match, group(i) is captures[i-1] for 1 <= i <= n and None beyond; groups() yields exactly
    // group(0), ..., group(n) and then None (len n+1); range()/start()/end() agree with group(0).
    #[kani::proof]
    #[kani::unwind(5)]
    fn j1_group_accessors() {
        let r = any_range(8).unwrap_or(0..0);
        let c0 = any_range(8);
        let c1 = any_range(8);
        let m = Match { range: r.clone(), captures: vec![c0.clone(), c1.clone()], group_names: Vec::new().into_boxed_slice() };
        assert!(m.group(0) == Some(r.clone()));
        assert!(m.group(1) == c0 && m.group(2) == c1);
        let i: usize = kani::any();
        kani::assume(i >= 3);
        assert!(m.group(i).is_none());
        assert!(m.range() == r && m.start() == r.start && m.end() == r.end);
        let mut g = m.groups();
        assert!(g.len() == 3);
        assert!(g.next() == Some(Some(r.clone())));
        assert!(g.next() == Some(c0.clone()));
        assert!(g.next() == Some(c1.clone()));
        assert!(g.next().is_none());
        assert!(g.next().is_none());
        core::mem::forget(m);
        kani::cover!(c0.is_none() && c1.is_some());
    }

    // @obligation name=j1_named_accessors props=C16 fn=api::Match::named_group,api::Match::named_groups,api::NamedGroups::next kind=bounded bound="Match with 3 capture slots, names drawn from {unnamed, a, b} (all 27 assignments, duplicates included), symbolic participation" min_checks=50 w=3 timeout=1500
    // named_groups() yields each distinct non-empty name exactly once, in order of first appearance, with the range of
    // the first group of that name that participated (None if none did); named_group(name) returns that same value;
    // unnamed groups and unknown names give None.
    #[kani::proof]
    #[kani::unwind(6)]
    fn j1_named_accessors() {
        let k: [u8; 3] = kani::any();
        kani::assume(k[0] < 3 && k[1] < 3 && k[2] < 3);
        let caps = [any_range(4), any_range(4), any_range(4)];
        let names: Vec<Box<str>> = vec![name_of(k[0]).into(), name_of(k[1]).into(), name_of(k[2]).into()];
        let m = Match { range: 0..4, captures: vec![caps[0].clone(), caps[1].clone(), caps[2].clone()], group_names: names.into_boxed_slice() };
        // spec: value of name code q = first participating group with that name
        let spec = |q: u8| -> Option<Range> {
            let mut i = 0;
            while i < 3 {
                if k[i] == q && caps[i].is_some() { return caps[i].clone(); }
                i += 1;
            }
            None
        };
        let has = |q: u8| k[0] == q || k[1] == q || k[2] == q;
        // named_group agrees with the spec for both names, and is None for "" and unknown names
        assert!(m.named_group("a") == if has(1) { spec(1) } else { None }, "named_group(a) = first participating group named a");
        assert!(m.named_group("b") == if has(2) { spec(2) } else { None }, "named_group(b) = first participating group named b");
        assert!(m.named_group("").is_none() && m.named_group("c").is_none());
        // named_groups: distinct names in first-appearance order
        let first_a = if k[0] == 1 { 0 } else if k[1] == 1 { 1 } else if k[2] == 1 { 2 } else { 3 };
        let first_b = if k[0] == 2 { 0 } else if k[1] == 2 { 1 } else if k[2] == 2 { 2 } else { 3 };
        let mut it = m.named_groups();
        let x1 = it.next();
        let x2 = it.next();
        let x3 = it.next();
        assert!(x3.is_none());
        let n_names = (has(1) as usize) + (has(2) as usize);
        match n_names {
            0 => assert!(x1.is_none() && x2.is_none()),
            1 => {
                let q = if has(1) { 1 } else { 2 };
                assert!(x1 == Some((name_of(q), spec(q))) && x2.is_none());
            }
            _ => {
                let (q1, q2) = if first_a < first_b { (1, 2) } else { (2, 1) };
                assert!(x1 == Some((name_of(q1), spec(q1))), "first yielded name");
                assert!(x2 == Some((name_of(q2), spec(q2))), "second yielded name");
            }
        }
        core::mem::forget(m);
        kani::cover!(k[0] == 1 && k[1] == 1 && caps[0].is_none() && caps[1].is_some());
        kani::cover!(n_names == 2 && first_b < first_a);
    }

    // @obligation name=j4_escape_char props= fn=api::escape kind=complete domain="every ASCII char (as a one-character string); non-ASCII chars take the same `_ => push(c)` arm" min_checks=50 w=3 timeout=1500
    // escape(c) is "\\" + c for the 14 syntax characters \ ^ $ . | ? * + ( ) [ ] { } and c itself for every other char.
    #[kani::proof]
    #[kani::unwind(8)]
    fn j4_escape_char() {
        let c: char = kani::any();
        kani::assume((c as u32) < 128);
        let mut buf = [0u8; 4];
        let s: &str = c.encode_utf8(&mut buf);
        let out = escape(s);
        let syntax = matches!(c, '\\' | '^' | '$' | '.' | '|' | '?' | '*' | '+' | '(' | ')' | '[' | ']' | '{' | '}');
        let ob = out.as_bytes();
        if syntax {
            assert!(ob.len() == 2 && ob[0] == b'\\' && ob[1] == c as u8);
        } else {
            assert!(ob.len() == s.len());
            let i: usize = kani::any();
            kani::assume(i < ob.len());
            assert!(ob[i] == s.as_bytes()[i]);
        }
        core::mem::forget(out);
        kani::cover!(syntax);
        kani::cover!(!syntax);
    }

    // @obligation name=j4_escape_two_chars props= fn=api::escape kind=bounded bound="strings of two ASCII chars (symbolic)" min_checks=50 w=2 timeout=900
    // escape is applied character by character: escape(c1 c2) = escape(c1) ++ escape(c2) (ASCII).
    #[kani::proof]
    #[kani::unwind(8)]
    fn j4_escape_two_chars() {
        let b: [u8; 2] = kani::any();
        kani::assume(b[0] < 128 && b[1] < 128);
        let s = unsafe { core::str::from_utf8_unchecked(&b) };
        let out = escape(s);
        let syn = |x: u8| matches!(x, b'\\' | b'^' | b'$' | b'.' | b'|' | b'?' | b'*' | b'+' | b'(' | b')' | b'[' | b']' | b'{' | b'}');
        let ob = out.as_bytes();
        let n0 = if syn(b[0]) { 2 } else { 1 };
        let n1 = if syn(b[1]) { 2 } else { 1 };
        assert!(ob.len() == n0 + n1);
        if syn(b[0]) { assert!(ob[0] == b'\\' && ob[1] == b[0]); } else { assert!(ob[0] == b[0]); }
        if syn(b[1]) { assert!(ob[n0] == b'\\' && ob[n0 + 1] == b[1]); } else { assert!(ob[n0] == b[1]); }
        core::mem::forget(out);
        kani::cover!(syn(b[0]) && !syn(b[1]));
    }

    fn regex_goal() -> &'static Regex {
        let cr = crate::classicalbacktrack::__verif::mk_owned(vec![crate::insn::Insn::Goal], 0, 1, vec![]);
        Box::leak(Box::new(Regex { cr }))
    }

    // @obligation name=j2_expand_replacement_2 props= fn=api::Regex::expand_replacement kind=bounded bound="templates of 2 characters over {$, 0, 1, 2, a}; match 1..3 of \"wxyz\" with one group (symbolic participation)" min_checks=50 w=3 timeout=1500
    // expand_replacement against the template specification: `$$` -> `$`; `$N` -> text of group N (`$0` the whole match,
    // nothing if absent or not participating); a lone `$` and every other character are copied literally.
    #[kani::proof]
    #[kani::unwind(8)]
    fn j2_expand_replacement_2() {
        let re = regex_goal();
        let text = "wxyz";
        let g1: bool = kani::any();
        let m = Match { range: 1..3, captures: vec![if g1 { Some(2..3) } else { None }], group_names: Vec::new().into_boxed_slice() };
        let alpha = [b'$', b'0', b'1', b'2', b'a'];
        let i0: usize = kani::any();
        let i1: usize = kani::any();
        kani::assume(i0 < 5 && i1 < 5);
        let t = [alpha[i0], alpha[i1]];
        let tmpl = unsafe { core::str::from_utf8_unchecked(&t) };
        let mut out = String::new();
        re.expand_replacement(&m, text, tmpl, &mut out);
        // specification
        let mut exp = [0u8; 4];
        let mut n = 0;
        if t[0] == b'$' {
            match t[1] {
                b'$' => { exp[0] = b'$'; n = 1; }
                b'0' => { exp[0] = b'x'; exp[1] = b'y'; n = 2; }
                b'1' => { if g1 { exp[0] = b'y'; n = 1; } }
                b'2' => {}
                _ => { exp[0] = b'$'; exp[1] = t[1]; n = 2; }
            }
        } else {
            exp[0] = t[0];
            n = 1;
            // second char: a lone trailing `$` is literal, anything else too
            exp[1] = t[1];
            n = 2;
        }
        let ob = out.as_bytes();
        assert!(ob.len() == n, "expansion length");
        let k: usize = kani::any();
        kani::assume(k < n);
        assert!(ob[k] == exp[k], "expansion content");
        core::mem::forget(out);
        core::mem::forget(m);
        kani::cover!(t[0] == b'$' && t[1] == b'1' && g1);
        kani::cover!(t[0] == b'a' && t[1] == b'$');
    }
}
