// Contracts for src/emit.rs: shape of the emitted program for small IR trees (I1-I3).
#[cfg(kani)]
pub(crate) mod __verif {
    use super::*;
    use crate::api::Flags;
    use crate::insn::StartPredicate;

    /// startpredicate::predicate_for_re is analysed by its own contracts; emit only stores its result.
    fn no_predicate(_re: &ir::Regex) -> StartPredicate {
        StartPredicate::Arbitrary
    }

    fn emit_leaked(node: Node) -> &'static CompiledRegex {
        let re = Box::leak(Box::new(ir::Regex { node, flags: Flags::default() }));
        Box::leak(Box::new(emit(re)))
    }

    // @obligation name=i2_emit_group_names_lookbehind props= fn=emit::emit,emit::Emitter::emit_node kind=bounded bound="IR (?<=(?<a>)(?<b>)) as the parser hands it over (children reversed inside the lookbehind), two named groups" min_checks=50 w=3 timeout=1500
    // group_names[id] is the name of the group with that id, also when the groups are emitted right-to-left inside a
    // lookbehind; groups counts the capture groups; the lookbehind body ends in Goal and its continuation points after it.
    #[kani::proof]
    #[kani::unwind(8)]
    #[kani::stub(crate::startpredicate::predicate_for_re, no_predicate)]
    fn i2_emit_group_names_lookbehind() {
        let ga = Node::CaptureGroup { id: 0, contents: Box::new(Node::Empty), name: Some("a".into()) };
        let gb = Node::CaptureGroup { id: 1, contents: Box::new(Node::Empty), name: Some("b".into()) };
        let look = Node::LookaroundAssertion {
            negate: false,
            backwards: true,
            start_group: 0,
            end_group: 2,
            // inside a lookbehind the parser has already reversed the catenation
            contents: Box::new(Node::Cat(vec![gb, ga])),
        };
        let cr = emit_leaked(look);
        assert!(cr.groups == 2);
        assert!(cr.group_names.len() == 2);
        assert!(cr.group_names[0].as_ref() == "a", "group 0 is named a");
        assert!(cr.group_names[1].as_ref() == "b", "group 1 is named b");
        assert!(cr.insns.len() == 6);
        match &cr.insns[0] {
            Insn::Lookbehind { negate, start_group, end_group, continuation } => {
                assert!(!*negate && *start_group == 0 && *end_group == 2 && *continuation == 6);
            }
            _ => assert!(false),
        }
        assert!(matches!(cr.insns[1], Insn::BeginCaptureGroup(1)));
        assert!(matches!(cr.insns[2], Insn::EndCaptureGroup(1)));
        assert!(matches!(cr.insns[3], Insn::BeginCaptureGroup(0)));
        assert!(matches!(cr.insns[4], Insn::EndCaptureGroup(0)));
        assert!(matches!(cr.insns[5], Insn::Goal));
        kani::cover!(true);
    }

    // @obligation name=i1_emit_charset_padding props= fn=emit::Emitter::emit_node kind=bounded bound="CharSet nodes of 1..=3 symbolic code points" min_checks=50 w=2 timeout=900
    // A CharSet node of k <= 4 code points becomes Insn::CharSet whose four slots contain exactly those code points
    // (unused slots repeat a member: the instruction matches nothing else); an empty CharSet becomes JustFail.
    #[kani::proof]
    #[kani::unwind(8)]
    #[kani::stub(crate::startpredicate::predicate_for_re, no_predicate)]
    fn i1_emit_charset_padding() {
        let c: [u32; 3] = kani::any();
        let k: usize = kani::any();
        kani::assume(k >= 1 && k <= 3);
        let v = match k { 1 => vec![c[0]], 2 => vec![c[0], c[1]], _ => vec![c[0], c[1], c[2]] };
        let cr = emit_leaked(Node::CharSet(v));
        assert!(cr.insns.len() == 1);
        match &cr.insns[0] {
            Insn::CharSet(arr) => {
                let x: u32 = kani::any();
                let in_arr = x == arr[0] || x == arr[1] || x == arr[2] || x == arr[3];
                let in_set = x == c[0] || (k >= 2 && x == c[1]) || (k >= 3 && x == c[2]);
                assert!(in_arr == in_set, "the CharSet instruction denotes exactly the node's code points");
            }
            _ => assert!(false),
        }
        let e = emit_leaked(Node::CharSet(Vec::new()));
        assert!(e.insns.len() == 1 && matches!(e.insns[0], Insn::JustFail));
        kani::cover!(k == 2);
    }

    fn seq20() -> Vec<u8> {
        let mut v = Vec::with_capacity(20);
        let mut i = 0u8;
        while i < 20 {
            v.push(b'a' + i);
            i += 1;
        }
        v
    }

    fn check_forward_chunks(cr: &CompiledRegex, at: usize) {
        match (&cr.insns[at], &cr.insns[at + 1]) {
            (Insn::ByteSeq16(a), Insn::ByteSeq4(b)) => {
                let mut i = 0;
                while i < 16 { assert!(a[i] == b'a' + i as u8); i += 1; }
                let mut i = 0;
                while i < 4 { assert!(b[i] == b'a' + 16 + i as u8); i += 1; }
            }
            _ => assert!(false, "a 20-byte literal outside lookbehind is emitted as ByteSeq16 then ByteSeq4"),
        }
    }

    // @obligation name=i3_emit_byteseq_after_lookbehind props= fn=emit::Emitter::emit_node kind=bounded bound="IR Cat[(?<=x), 20-byte literal] and a bare 20-byte literal" min_checks=50 w=3 timeout=1500
    // ByteSequence chunking: outside a lookbehind the chunks are emitted in source order (16 bytes then the rest), and the
    // lookbehind context ends with the lookbehind: a literal that FOLLOWS a closed lookbehind is emitted forwards.
    #[kani::proof]
    #[kani::unwind(24)]
    #[kani::stub(crate::startpredicate::predicate_for_re, no_predicate)]
    fn i3_emit_byteseq_after_lookbehind() {
        let look = Node::LookaroundAssertion {
            negate: false, backwards: true, start_group: 0, end_group: 0,
            contents: Box::new(Node::ByteSequence(vec![b'x'])),
        };
        let cr = emit_leaked(Node::Cat(vec![look, Node::ByteSequence(seq20())]));
        // Lookbehind, ByteSeq1(x), Goal, ByteSeq16, ByteSeq4
        assert!(cr.insns.len() == 5);
        assert!(matches!(cr.insns[0], Insn::Lookbehind { continuation: 3, .. }));
        assert!(matches!(cr.insns[2], Insn::Goal));
        check_forward_chunks(cr, 3);
        kani::cover!(true);
    }

    // @obligation name=i3_emit_byteseq_in_lookbehind props= fn=emit::Emitter::emit_node kind=bounded bound="IR (?<=20-byte literal)" min_checks=50 w=3 timeout=1500
    // Inside a lookbehind the chunks of a long literal are emitted last-chunk-first (each chunk itself is matched forwards
    // by match_bytes), so that walking right-to-left they are met in the right order.
    #[kani::proof]
    #[kani::unwind(24)]
    #[kani::stub(crate::startpredicate::predicate_for_re, no_predicate)]
    fn i3_emit_byteseq_in_lookbehind() {
        let look = Node::LookaroundAssertion {
            negate: false, backwards: true, start_group: 0, end_group: 0,
            contents: Box::new(Node::ByteSequence(seq20())),
        };
        let cr = emit_leaked(look);
        assert!(cr.insns.len() == 4);
        match (&cr.insns[1], &cr.insns[2]) {
            (Insn::ByteSeq4(b), Insn::ByteSeq16(a)) => {
                assert!(a[0] == b'a' && a[15] == b'a' + 15 && b[0] == b'a' + 16 && b[3] == b'a' + 19);
            }
            _ => assert!(false, "inside a lookbehind the last chunk comes first"),
        }
        assert!(matches!(cr.insns[3], Insn::Goal));
        kani::cover!(true);
    }

    // @obligation name=i1_emit_loop_shape props= fn=emit::Emitter::emit_node kind=bounded bound="IR Loop{min,max symbolic, greedy}(CaptureGroup(Char c)) enclosing group 0" min_checks=50 w=3 timeout=1500
    // A Loop node becomes EnterLoop{exit} ; ResetCaptureGroup for each enclosed group ; body ; LoopAgain{begin}: begin points
    // at the EnterLoop, exit just after the LoopAgain, unbounded max becomes usize::MAX, loops counts the loops.
    #[kani::proof]
    #[kani::unwind(8)]
    #[kani::stub(crate::startpredicate::predicate_for_re, no_predicate)]
    fn i1_emit_loop_shape() {
        let min: usize = kani::any();
        let max: Option<usize> = kani::any();
        let greedy: bool = kani::any();
        let c: u32 = kani::any();
        let body = Node::CaptureGroup { id: 0, contents: Box::new(Node::Char { c }), name: None };
        let lp = Node::Loop { loopee: Box::new(body), quant: ir::Quantifier { min, max, greedy }, enclosed_groups: 0..1 };
        let cr = emit_leaked(lp);
        assert!(cr.loops == 1 && cr.groups == 1 && cr.group_names.len() == 0);
        assert!(cr.insns.len() == 6);
        match &cr.insns[0] {
            Insn::EnterLoop(f) => {
                assert!(f.loop_id == 0 && f.min_iters == min && f.greedy == greedy && f.exit == 6);
                assert!(f.max_iters == max.unwrap_or(usize::MAX));
            }
            _ => assert!(false),
        }
        assert!(matches!(cr.insns[1], Insn::ResetCaptureGroup(0)));
        assert!(matches!(cr.insns[2], Insn::BeginCaptureGroup(0)));
        assert!(matches!(cr.insns[3], Insn::Char(x) if x == c));
        assert!(matches!(cr.insns[4], Insn::EndCaptureGroup(0)));
        assert!(matches!(cr.insns[5], Insn::LoopAgain { begin: 0 }));
        kani::cover!(max.is_none());
    }

    // @obligation name=i1_emit_alt_shape props= fn=emit::Emitter::emit_node kind=bounded bound="IR Alt(Char a, Char b) followed by Goal" min_checks=50 w=3 timeout=1500
    // An Alt node becomes Alt{secondary} ; left ; Jump{after} ; right, with secondary pointing at the right branch and the
    // jump past it.
    #[kani::proof]
    #[kani::unwind(8)]
    #[kani::stub(crate::startpredicate::predicate_for_re, no_predicate)]
    fn i1_emit_alt_shape() {
        let a: u32 = kani::any();
        let b: u32 = kani::any();
        let alt = Node::Alt(Box::new(Node::Char { c: a }), Box::new(Node::Char { c: b }));
        let cr = emit_leaked(Node::Cat(vec![alt, Node::Goal]));
        assert!(cr.insns.len() == 5);
        assert!(matches!(cr.insns[0], Insn::Alt { secondary: 3 }));
        assert!(matches!(cr.insns[1], Insn::Char(x) if x == a));
        assert!(matches!(cr.insns[2], Insn::Jump { target: 4 }));
        assert!(matches!(cr.insns[3], Insn::Char(x) if x == b));
        assert!(matches!(cr.insns[4], Insn::Goal));
        kani::cover!(true);
    }


    // ---------------------------------------------------------------------------------------------
    // Non-recursive emitter helpers (the stack-driven emit_node itself does not close under CBMC, see DESIGN.md).

    fn fresh_emitter() -> Emitter {
        Emitter {
            next_loop_id: 0,
            group_names: Vec::new(),
            in_lookbehind: false,
            result: CompiledRegex {
                insns: Vec::with_capacity(4),
                brackets: Vec::new(),
                loops: 0,
                groups: 0,
                group_names: Vec::new().into_boxed_slice(),
                flags: Flags::default(),
                start_pred: StartPredicate::Arbitrary,
            },
        }
    }

    // @obligation name=ck2_bracket_as_ascii props=C12,C01:t fn=emit::bracket_as_ascii,emit::make_anchor kind=bounded bound="bracket with 1 symbolic interval, invert symbolic; probe: every byte" min_checks=50 w=3 timeout=1500
    // bracket_as_ascii returns Some(bitmap) only for a non-inverted bracket whose members are all < 128, and then the bitmap
    // has exactly the bracket's members (so AsciiBracket matches the same characters as the Bracket it replaces);
    // make_anchor maps ^/$ with the multiline flag unchanged.
    #[kani::proof]
    #[kani::unwind(130)]
    fn ck2_bracket_as_ascii() {
        use crate::bytesearch::ByteSet;
        let first: u32 = kani::any();
        let last: u32 = kani::any();
        kani::assume(first <= last && last <= 0x10FFFF);
        let invert: bool = kani::any();
        let cps = crate::codepointset::CodePointSet::from_sorted_disjoint_intervals(vec![crate::codepointset::Interval { first, last }]);
        let bc = BracketContents { invert, cps };
        let r = bracket_as_ascii(&bc);
        let b: u8 = kani::any();
        match &r {
            Some(bm) => {
                assert!(!invert && last < 128);
                assert!(bm.contains(b) == (first <= b as u32 && b as u32 <= last), "the ASCII bitmap has exactly the bracket's members");
            }
            None => assert!(invert || last >= 128),
        }
        let ml: bool = kani::any();
        assert!(matches!(make_anchor(ir::AnchorType::StartOfLine, ml), Insn::StartOfLine { multiline } if multiline == ml));
        assert!(matches!(make_anchor(ir::AnchorType::EndOfLine, ml), Insn::EndOfLine { multiline } if multiline == ml));
        core::mem::forget(bc);
        kani::cover!(r.is_some() && first < last);
        kani::cover!(r.is_none() && !invert);
    }

    // @obligation name=i3_emit_byte_set_insn props=C01,C03:t fn=emit::Emitter::emit_byte_set_insn kind=bounded bound="byte sets of 0..=4 symbolic bytes" min_checks=50 w=2 timeout=900
    // emit_byte_set_insn: an empty set always fails, one byte becomes ByteSeq1, 2/3/4 bytes become ByteSet2/3/4 with exactly
    // those members in order.
    #[kani::proof]
    #[kani::unwind(6)]
    fn i3_emit_byte_set_insn() {
        let s: [u8; 4] = kani::any();
        let mut e = fresh_emitter();
        e.emit_byte_set_insn(&s[..0]);
        e.emit_byte_set_insn(&s[..1]);
        e.emit_byte_set_insn(&s[..2]);
        e.emit_byte_set_insn(&s[..3]);
        let mut e2 = fresh_emitter();
        e2.emit_byte_set_insn(&s[..4]);
        assert!(matches!(&e.result.insns[0], Insn::JustFail));
        assert!(matches!(&e.result.insns[1], Insn::ByteSeq1(a) if a[0] == s[0]));
        assert!(matches!(&e.result.insns[2], Insn::ByteSet2(a) if a.0 == [s[0], s[1]]));
        assert!(matches!(&e.result.insns[3], Insn::ByteSet3(a) if a.0 == [s[0], s[1], s[2]]));
        assert!(matches!(&e2.result.insns[0], Insn::ByteSet4(a) if a.0 == s));
        core::mem::forget((e, e2));
        kani::cover!(true);
    }

    // @obligation name=i3_emit_byte_sequence_insn_1 props=C01,C03:t fn=emit::Emitter::emit_byte_sequence_insn kind=bounded bound="a chunk of 1 symbolic bytes" min_checks=50 w=2 timeout=900
    // emit_byte_sequence_insn on a 1-byte chunk emits ByteSeq1 holding exactly those bytes in order.
    #[kani::proof]
    #[kani::unwind(4)]
    fn i3_emit_byte_sequence_insn_1() {
        let s: [u8; 1] = kani::any();
        let mut e = fresh_emitter();
        e.emit_byte_sequence_insn(&s);
        assert!(e.result.insns.len() == 1);
        assert!(matches!(&e.result.insns[0], Insn::ByteSeq1(a) if *a == s));
        core::mem::forget(e);
        kani::cover!(true);
    }

    // @obligation name=i3_emit_byte_sequence_insn_2 props=C01:t,C03:t fn=emit::Emitter::emit_byte_sequence_insn kind=bounded bound="a chunk of 2 symbolic bytes" min_checks=50 w=2 timeout=900
    // emit_byte_sequence_insn on a 2-byte chunk emits ByteSeq2 holding exactly those bytes in order.
    #[kani::proof]
    #[kani::unwind(5)]
    fn i3_emit_byte_sequence_insn_2() {
        let s: [u8; 2] = kani::any();
        let mut e = fresh_emitter();
        e.emit_byte_sequence_insn(&s);
        assert!(e.result.insns.len() == 1);
        assert!(matches!(&e.result.insns[0], Insn::ByteSeq2(a) if *a == s));
        core::mem::forget(e);
        kani::cover!(true);
    }

    // @obligation name=i3_emit_byte_sequence_insn_3 props=C01:t,C03:t fn=emit::Emitter::emit_byte_sequence_insn kind=bounded bound="a chunk of 3 symbolic bytes" min_checks=50 w=2 timeout=900
    // emit_byte_sequence_insn on a 3-byte chunk emits ByteSeq3 holding exactly those bytes in order.
    #[kani::proof]
    #[kani::unwind(6)]
    fn i3_emit_byte_sequence_insn_3() {
        let s: [u8; 3] = kani::any();
        let mut e = fresh_emitter();
        e.emit_byte_sequence_insn(&s);
        assert!(e.result.insns.len() == 1);
        assert!(matches!(&e.result.insns[0], Insn::ByteSeq3(a) if *a == s));
        core::mem::forget(e);
        kani::cover!(true);
    }

    // @obligation name=i3_emit_byte_sequence_insn_4 props=C01:t,C03:t fn=emit::Emitter::emit_byte_sequence_insn kind=bounded bound="a chunk of 4 symbolic bytes" min_checks=50 w=2 timeout=900
    // emit_byte_sequence_insn on a 4-byte chunk emits ByteSeq4 holding exactly those bytes in order.
    #[kani::proof]
    #[kani::unwind(7)]
    fn i3_emit_byte_sequence_insn_4() {
        let s: [u8; 4] = kani::any();
        let mut e = fresh_emitter();
        e.emit_byte_sequence_insn(&s);
        assert!(e.result.insns.len() == 1);
        assert!(matches!(&e.result.insns[0], Insn::ByteSeq4(a) if *a == s));
        core::mem::forget(e);
        kani::cover!(true);
    }

    // @obligation name=i3_emit_byte_sequence_insn_5 props=C01,C03:t fn=emit::Emitter::emit_byte_sequence_insn kind=bounded bound="a chunk of 5 symbolic bytes" min_checks=50 w=2 timeout=900
    // emit_byte_sequence_insn on a 5-byte chunk emits ByteSeq5 holding exactly those bytes in order.
    #[kani::proof]
    #[kani::unwind(8)]
    fn i3_emit_byte_sequence_insn_5() {
        let s: [u8; 5] = kani::any();
        let mut e = fresh_emitter();
        e.emit_byte_sequence_insn(&s);
        assert!(e.result.insns.len() == 1);
        assert!(matches!(&e.result.insns[0], Insn::ByteSeq5(a) if *a == s));
        core::mem::forget(e);
        kani::cover!(true);
    }

    // @obligation name=i3_emit_byte_sequence_insn_6 props=C01:t,C03:t fn=emit::Emitter::emit_byte_sequence_insn kind=bounded bound="a chunk of 6 symbolic bytes" min_checks=50 w=2 timeout=900
    // emit_byte_sequence_insn on a 6-byte chunk emits ByteSeq6 holding exactly those bytes in order.
    #[kani::proof]
    #[kani::unwind(9)]
    fn i3_emit_byte_sequence_insn_6() {
        let s: [u8; 6] = kani::any();
        let mut e = fresh_emitter();
        e.emit_byte_sequence_insn(&s);
        assert!(e.result.insns.len() == 1);
        assert!(matches!(&e.result.insns[0], Insn::ByteSeq6(a) if *a == s));
        core::mem::forget(e);
        kani::cover!(true);
    }

    // @obligation name=i3_emit_byte_sequence_insn_7 props=C01:t,C03:t fn=emit::Emitter::emit_byte_sequence_insn kind=bounded bound="a chunk of 7 symbolic bytes" min_checks=50 w=2 timeout=900
    // emit_byte_sequence_insn on a 7-byte chunk emits ByteSeq7 holding exactly those bytes in order.
    #[kani::proof]
    #[kani::unwind(10)]
    fn i3_emit_byte_sequence_insn_7() {
        let s: [u8; 7] = kani::any();
        let mut e = fresh_emitter();
        e.emit_byte_sequence_insn(&s);
        assert!(e.result.insns.len() == 1);
        assert!(matches!(&e.result.insns[0], Insn::ByteSeq7(a) if *a == s));
        core::mem::forget(e);
        kani::cover!(true);
    }

    // @obligation name=i3_emit_byte_sequence_insn_8 props=C01:t,C03:t fn=emit::Emitter::emit_byte_sequence_insn kind=bounded bound="a chunk of 8 symbolic bytes" min_checks=50 w=2 timeout=900
    // emit_byte_sequence_insn on a 8-byte chunk emits ByteSeq8 holding exactly those bytes in order.
    #[kani::proof]
    #[kani::unwind(11)]
    fn i3_emit_byte_sequence_insn_8() {
        let s: [u8; 8] = kani::any();
        let mut e = fresh_emitter();
        e.emit_byte_sequence_insn(&s);
        assert!(e.result.insns.len() == 1);
        assert!(matches!(&e.result.insns[0], Insn::ByteSeq8(a) if *a == s));
        core::mem::forget(e);
        kani::cover!(true);
    }

    // @obligation name=i3_emit_byte_sequence_insn_9 props=C01:t,C03:t fn=emit::Emitter::emit_byte_sequence_insn kind=bounded bound="a chunk of 9 symbolic bytes" min_checks=50 w=2 timeout=900
    // emit_byte_sequence_insn on a 9-byte chunk emits ByteSeq9 holding exactly those bytes in order.
    #[kani::proof]
    #[kani::unwind(12)]
    fn i3_emit_byte_sequence_insn_9() {
        let s: [u8; 9] = kani::any();
        let mut e = fresh_emitter();
        e.emit_byte_sequence_insn(&s);
        assert!(e.result.insns.len() == 1);
        assert!(matches!(&e.result.insns[0], Insn::ByteSeq9(a) if *a == s));
        core::mem::forget(e);
        kani::cover!(true);
    }

    // @obligation name=i3_emit_byte_sequence_insn_10 props=C01:t,C03:t fn=emit::Emitter::emit_byte_sequence_insn kind=bounded bound="a chunk of 10 symbolic bytes" min_checks=50 w=2 timeout=900
    // emit_byte_sequence_insn on a 10-byte chunk emits ByteSeq10 holding exactly those bytes in order.
    #[kani::proof]
    #[kani::unwind(13)]
    fn i3_emit_byte_sequence_insn_10() {
        let s: [u8; 10] = kani::any();
        let mut e = fresh_emitter();
        e.emit_byte_sequence_insn(&s);
        assert!(e.result.insns.len() == 1);
        assert!(matches!(&e.result.insns[0], Insn::ByteSeq10(a) if *a == s));
        core::mem::forget(e);
        kani::cover!(true);
    }

    // @obligation name=i3_emit_byte_sequence_insn_11 props=C01:t,C03:t fn=emit::Emitter::emit_byte_sequence_insn kind=bounded bound="a chunk of 11 symbolic bytes" min_checks=50 w=2 timeout=900
    // emit_byte_sequence_insn on a 11-byte chunk emits ByteSeq11 holding exactly those bytes in order.
    #[kani::proof]
    #[kani::unwind(14)]
    fn i3_emit_byte_sequence_insn_11() {
        let s: [u8; 11] = kani::any();
        let mut e = fresh_emitter();
        e.emit_byte_sequence_insn(&s);
        assert!(e.result.insns.len() == 1);
        assert!(matches!(&e.result.insns[0], Insn::ByteSeq11(a) if *a == s));
        core::mem::forget(e);
        kani::cover!(true);
    }

    // @obligation name=i3_emit_byte_sequence_insn_12 props=C01:t,C03:t fn=emit::Emitter::emit_byte_sequence_insn kind=bounded bound="a chunk of 12 symbolic bytes" min_checks=50 w=2 timeout=900
    // emit_byte_sequence_insn on a 12-byte chunk emits ByteSeq12 holding exactly those bytes in order.
    #[kani::proof]
    #[kani::unwind(15)]
    fn i3_emit_byte_sequence_insn_12() {
        let s: [u8; 12] = kani::any();
        let mut e = fresh_emitter();
        e.emit_byte_sequence_insn(&s);
        assert!(e.result.insns.len() == 1);
        assert!(matches!(&e.result.insns[0], Insn::ByteSeq12(a) if *a == s));
        core::mem::forget(e);
        kani::cover!(true);
    }

    // @obligation name=i3_emit_byte_sequence_insn_13 props=C01:t,C03:t fn=emit::Emitter::emit_byte_sequence_insn kind=bounded bound="a chunk of 13 symbolic bytes" min_checks=50 w=2 timeout=900
    // emit_byte_sequence_insn on a 13-byte chunk emits ByteSeq13 holding exactly those bytes in order.
    #[kani::proof]
    #[kani::unwind(16)]
    fn i3_emit_byte_sequence_insn_13() {
        let s: [u8; 13] = kani::any();
        let mut e = fresh_emitter();
        e.emit_byte_sequence_insn(&s);
        assert!(e.result.insns.len() == 1);
        assert!(matches!(&e.result.insns[0], Insn::ByteSeq13(a) if *a == s));
        core::mem::forget(e);
        kani::cover!(true);
    }

    // @obligation name=i3_emit_byte_sequence_insn_14 props=C01:t,C03:t fn=emit::Emitter::emit_byte_sequence_insn kind=bounded bound="a chunk of 14 symbolic bytes" min_checks=50 w=2 timeout=900
    // emit_byte_sequence_insn on a 14-byte chunk emits ByteSeq14 holding exactly those bytes in order.
    #[kani::proof]
    #[kani::unwind(17)]
    fn i3_emit_byte_sequence_insn_14() {
        let s: [u8; 14] = kani::any();
        let mut e = fresh_emitter();
        e.emit_byte_sequence_insn(&s);
        assert!(e.result.insns.len() == 1);
        assert!(matches!(&e.result.insns[0], Insn::ByteSeq14(a) if *a == s));
        core::mem::forget(e);
        kani::cover!(true);
    }

    // @obligation name=i3_emit_byte_sequence_insn_15 props=C01:t,C03:t fn=emit::Emitter::emit_byte_sequence_insn kind=bounded bound="a chunk of 15 symbolic bytes" min_checks=50 w=2 timeout=900
    // emit_byte_sequence_insn on a 15-byte chunk emits ByteSeq15 holding exactly those bytes in order.
    #[kani::proof]
    #[kani::unwind(18)]
    fn i3_emit_byte_sequence_insn_15() {
        let s: [u8; 15] = kani::any();
        let mut e = fresh_emitter();
        e.emit_byte_sequence_insn(&s);
        assert!(e.result.insns.len() == 1);
        assert!(matches!(&e.result.insns[0], Insn::ByteSeq15(a) if *a == s));
        core::mem::forget(e);
        kani::cover!(true);
    }

    // @obligation name=i3_emit_byte_sequence_insn_16 props=C01,C03:t fn=emit::Emitter::emit_byte_sequence_insn kind=bounded bound="a chunk of 16 symbolic bytes" min_checks=50 w=2 timeout=900
    // emit_byte_sequence_insn on a 16-byte chunk emits ByteSeq16 holding exactly those bytes in order.
    #[kani::proof]
    #[kani::unwind(19)]
    fn i3_emit_byte_sequence_insn_16() {
        let s: [u8; 16] = kani::any();
        let mut e = fresh_emitter();
        e.emit_byte_sequence_insn(&s);
        assert!(e.result.insns.len() == 1);
        assert!(matches!(&e.result.insns[0], Insn::ByteSeq16(a) if *a == s));
        core::mem::forget(e);
        kani::cover!(true);
    }
}
