// Contracts for src/emit.rs: shape of the emitted program for small IR trees (I1-I3).
#[cfg(kani)]
pub(crate) mod __verif {
    use super::*;
    use crate::api::Flags;
    use crate::insn::StartPredicate;

    /// startpredicate::predicate_for_re is analysed by its own contracts; emit only stores its result.
    fn no_predicate(_re: &ir::Regex) -> StartPredicate {
        StartPredicate::Arbitrary
    }

    fn emit_leaked(node: Node) -> &'static CompiledRegex {
        let re = Box::leak(Box::new(ir::Regex { node, flags: Flags::default() }));
        Box::leak(Box::new(emit(re)))
    }

    // @obligation name=i2_emit_group_names_lookbehind props= fn=emit::emit,emit::Emitter::emit_node kind=bounded bound="IR (?<=(?<a>)(?<b>)) as the parser hands it over (children reversed inside the lookbehind), two named groups" min_checks=50 w=3 timeout=1500
    // group_names[id] is the name of the group with that id, also when the groups are emitted right-to-left inside a
    // lookbehind; groups counts the capture groups; the lookbehind body ends in Goal and its continuation points after it.
    #[kani::proof]
    #[kani::unwind(8)]
    #[kani::stub(crate::startpredicate::predicate_for_re, no_predicate)]
    fn i2_emit_group_names_lookbehind() {
        let ga = Node::CaptureGroup { id: 0, contents: Box::new(Node::Empty), name: Some("a".into()) };
        let gb = Node::CaptureGroup { id: 1, contents: Box::new(Node::Empty), name: Some("b".into()) };
        let look = Node::LookaroundAssertion {
            negate: false,
            backwards: true,
            start_group: 0,
            end_group: 2,
            // inside a lookbehind the parser has already reversed the catenation
            contents: Box::new(Node::Cat(vec![gb, ga])),
        };
        let cr = emit_leaked(look);
        assert!(cr.groups == 2);
        assert!(cr.group_names.len() == 2);
        assert!(cr.group_names[0].as_ref() == "a", "group 0 is named a");
        assert!(cr.group_names[1].as_ref() == "b", "group 1 is named b");
        assert!(cr.insns.len() == 6);
        match &cr.insns[0] {
            Insn::Lookbehind { negate, start_group, end_group, continuation } => {
                assert!(!*negate && *start_group == 0 && *end_group == 2 && *continuation == 6);
            }
            _ => assert!(false),
        }
        assert!(matches!(cr.insns[1], Insn::BeginCaptureGroup(1)));
        assert!(matches!(cr.insns[2], Insn::EndCaptureGroup(1)));
        assert!(matches!(cr.insns[3], Insn::BeginCaptureGroup(0)));
        assert!(matches!(cr.insns[4], Insn::EndCaptureGroup(0)));
        assert!(matches!(cr.insns[5], Insn::Goal));
        kani::cover!(true);
    }

    // @obligation name=i1_emit_charset_padding props= fn=emit::Emitter::emit_node kind=bounded bound="CharSet nodes of 1..=3 symbolic code points" min_checks=50 w=2 timeout=900
    // A CharSet node of k <= 4 code points becomes Insn::CharSet whose four slots contain exactly those code points
    // (unused slots repeat a member: the instruction matches nothing else); an empty CharSet becomes JustFail.
    #[kani::proof]
    #[kani::unwind(8)]
    #[kani::stub(crate::startpredicate::predicate_for_re, no_predicate)]
    fn i1_emit_charset_padding() {
        let c: [u32; 3] = kani::any();
        let k: usize = kani::any();
        kani::assume(k >= 1 && k <= 3);
        let v = match k { 1 => vec![c[0]], 2 => vec![c[0], c[1]], _ => vec![c[0], c[1], c[2]] };
        let cr = emit_leaked(Node::CharSet(v));
        assert!(cr.insns.len() == 1);
        match &cr.insns[0] {
            Insn::CharSet(arr) => {
                let x: u32 = kani::any();
                let in_arr = x == arr[0] || x == arr[1] || x == arr[2] || x == arr[3];
                let in_set = x == c[0] || (k >= 2 && x == c[1]) || (k >= 3 && x == c[2]);
                assert!(in_arr == in_set, "the CharSet instruction denotes exactly the node's code points");
            }
            _ => assert!(false),
        }
        let e = emit_leaked(Node::CharSet(Vec::new()));
        assert!(e.insns.len() == 1 && matches!(e.insns[0], Insn::JustFail));
        kani::cover!(k == 2);
    }

    fn seq20() -> Vec<u8> {
        let mut v = Vec::with_capacity(20);
        let mut i = 0u8;
        while i < 20 {
            v.push(b'a' + i);
            i += 1;
        }
        v
    }

    fn check_forward_chunks(cr: &CompiledRegex, at: usize) {
        match (&cr.insns[at], &cr.insns[at + 1]) {
            (Insn::ByteSeq16(a), Insn::ByteSeq4(b)) => {
                let mut i = 0;
                while i < 16 { assert!(a[i] == b'a' + i as u8); i += 1; }
                let mut i = 0;
                while i < 4 { assert!(b[i] == b'a' + 16 + i as u8); i += 1; }
            }
            _ => assert!(false, "a 20-byte literal outside lookbehind is emitted as ByteSeq16 then ByteSeq4"),
        }
    }

    // @obligation name=i3_emit_byteseq_after_lookbehind props= fn=emit::Emitter::emit_node kind=bounded bound="IR Cat[(?<=x), 20-byte literal] and a bare 20-byte literal" min_checks=50 w=3 timeout=1500
    // ByteSequence chunking: outside a lookbehind the chunks are emitted in source order (16 bytes then the rest), and the
    // lookbehind context ends with the lookbehind: a literal that FOLLOWS a closed lookbehind is emitted forwards.
    #[kani::proof]
    #[kani::unwind(24)]
    #[kani::stub(crate::startpredicate::predicate_for_re, no_predicate)]
    fn i3_emit_byteseq_after_lookbehind() {
        let look = Node::LookaroundAssertion {
            negate: false, backwards: true, start_group: 0, end_group: 0,
            contents: Box::new(Node::ByteSequence(vec![b'x'])),
        };
        let cr = emit_leaked(Node::Cat(vec![look, Node::ByteSequence(seq20())]));
        // Lookbehind, ByteSeq1(x), Goal, ByteSeq16, ByteSeq4
        assert!(cr.insns.len() == 5);
        assert!(matches!(cr.insns[0], Insn::Lookbehind { continuation: 3, .. }));
        assert!(matches!(cr.insns[2], Insn::Goal));
        check_forward_chunks(cr, 3);
        kani::cover!(true);
    }

    // @obligation name=i3_emit_byteseq_in_lookbehind props= fn=emit::Emitter::emit_node kind=bounded bound="IR (?<=20-byte literal)" min_checks=50 w=3 timeout=1500
    // Inside a lookbehind the chunks of a long literal are emitted last-chunk-first (each chunk itself is matched forwards
    // by match_bytes), so that walking right-to-left they are met in the right order.
    #[kani::proof]
    #[kani::unwind(24)]
    #[kani::stub(crate::startpredicate::predicate_for_re, no_predicate)]
    fn i3_emit_byteseq_in_lookbehind() {
        let look = Node::LookaroundAssertion {
            negate: false, backwards: true, start_group: 0, end_group: 0,
            contents: Box::new(Node::ByteSequence(seq20())),
        };
        let cr = emit_leaked(look);
        assert!(cr.insns.len() == 4);
        match (&cr.insns[1], &cr.insns[2]) {
            (Insn::ByteSeq4(b), Insn::ByteSeq16(a)) => {
                assert!(a[0] == b'a' && a[15] == b'a' + 15 && b[0] == b'a' + 16 && b[3] == b'a' + 19);
            }
            _ => assert!(false, "inside a lookbehind the last chunk comes first"),
        }
        assert!(matches!(cr.insns[3], Insn::Goal));
        kani::cover!(true);
    }

    // @obligation name=i1_emit_loop_shape props= fn=emit::Emitter::emit_node kind=bounded bound="IR Loop{min,max symbolic, greedy}(CaptureGroup(Char c)) enclosing group 0" min_checks=50 w=3 timeout=1500
    // A Loop node becomes EnterLoop{exit} ; ResetCaptureGroup for each enclosed group ; body ; LoopAgain{begin}: begin points
    // at the EnterLoop, exit just after the LoopAgain, unbounded max becomes usize::MAX, loops counts the loops.
    #[kani::proof]
    #[kani::unwind(8)]
    #[kani::stub(crate::startpredicate::predicate_for_re, no_predicate)]
    fn i1_emit_loop_shape() {
        let min: usize = kani::any();
        let max: Option<usize> = kani::any();
        let greedy: bool = kani::any();
        let c: u32 = kani::any();
        let body = Node::CaptureGroup { id: 0, contents: Box::new(Node::Char { c }), name: None };
        let lp = Node::Loop { loopee: Box::new(body), quant: ir::Quantifier { min, max, greedy }, enclosed_groups: 0..1 };
        let cr = emit_leaked(lp);
        assert!(cr.loops == 1 && cr.groups == 1 && cr.group_names.len() == 0);
        assert!(cr.insns.len() == 6);
        match &cr.insns[0] {
            Insn::EnterLoop(f) => {
                assert!(f.loop_id == 0 && f.min_iters == min && f.greedy == greedy && f.exit == 6);
                assert!(f.max_iters == max.unwrap_or(usize::MAX));
            }
            _ => assert!(false),
        }
        assert!(matches!(cr.insns[1], Insn::ResetCaptureGroup(0)));
        assert!(matches!(cr.insns[2], Insn::BeginCaptureGroup(0)));
        assert!(matches!(cr.insns[3], Insn::Char(x) if x == c));
        assert!(matches!(cr.insns[4], Insn::EndCaptureGroup(0)));
        assert!(matches!(cr.insns[5], Insn::LoopAgain { begin: 0 }));
        kani::cover!(max.is_none());
    }

    // @obligation name=i1_emit_alt_shape props= fn=emit::Emitter::emit_node kind=bounded bound="IR Alt(Char a, Char b) followed by Goal" min_checks=50 w=3 timeout=1500
    // An Alt node becomes Alt{secondary} ; left ; Jump{after} ; right, with secondary pointing at the right branch and the
    // jump past it.
    #[kani::proof]
    #[kani::unwind(8)]
    #[kani::stub(crate::startpredicate::predicate_for_re, no_predicate)]
    fn i1_emit_alt_shape() {
        let a: u32 = kani::any();
        let b: u32 = kani::any();
        let alt = Node::Alt(Box::new(Node::Char { c: a }), Box::new(Node::Char { c: b }));
        let cr = emit_leaked(Node::Cat(vec![alt, Node::Goal]));
        assert!(cr.insns.len() == 5);
        assert!(matches!(cr.insns[0], Insn::Alt { secondary: 3 }));
        assert!(matches!(cr.insns[1], Insn::Char(x) if x == a));
        assert!(matches!(cr.insns[2], Insn::Jump { target: 4 }));
        assert!(matches!(cr.insns[3], Insn::Char(x) if x == b));
        assert!(matches!(cr.insns[4], Insn::Goal));
        kani::cover!(true);
    }

}
