// Contracts for src/bytesearch.rs.
#[cfg(kani)]
mod __verif {
    use super::*;

    fn in4(set: &[u8; 4], b: u8) -> bool {
        b == set[0] || b == set[1] || b == set[2] || b == set[3]
    }

    fn any_bitmap() -> ByteBitmap {
        ByteBitmap(kani::any())
    }

    // @obligation name=b1_bitmap_set_contains props=C04,C06:t fn=bytesearch::ByteBitmap::set,bytesearch::ByteBitmap::contains kind=complete domain="every bitmap, every pair of bytes" min_checks=10
    // After set(v): contains(v), and contains(w) is unchanged for every w != v (full frame); Default is empty; new(&[a,b]) = {a,b}.
    #[kani::proof]
    #[kani::unwind(4)]
    fn b1_bitmap_set_contains() {
        let mut bm = any_bitmap();
        let old = bm;
        let v: u8 = kani::any();
        let w: u8 = kani::any();
        bm.set(v);
        assert!(bm.contains(v));
        if w != v {
            assert!(bm.contains(w) == old.contains(w));
        }
        assert!(!ByteBitmap::default().contains(w));
        let a: u8 = kani::any();
        let b: u8 = kani::any();
        assert!(ByteBitmap::new(&[a, b]).contains(w) == (w == a || w == b));
        kani::cover!(old.contains(v));
        kani::cover!(!old.contains(v));
    }

    // @obligation name=b1_bitmap_bitor_bitnot_count props=C04 fn=bytesearch::ByteBitmap::bitor,bytesearch::ByteBitmap::bitnot,bytesearch::ByteBitmap::count_bits kind=complete domain="every pair of bitmaps, every byte" min_checks=10
    // bitor is set union, bitnot is complement (per byte), count_bits is the cardinality (checked: 0 iff empty, and +1 when setting a fresh byte).
    #[kani::proof]
    #[kani::unwind(18)]
    fn b1_bitmap_bitor_bitnot_count() {
        let a = any_bitmap();
        let b = any_bitmap();
        let w: u8 = kani::any();
        let mut u = a;
        u.bitor(&b);
        assert!(u.contains(w) == (a.contains(w) || b.contains(w)));
        let mut n = a;
        n.bitnot();
        assert!(n.contains(w) == !a.contains(w));
        let c0 = a.count_bits();
        assert!(c0 <= 256);
        if c0 == 0 {
            assert!(!a.contains(w));
        }
        if !a.contains(w) {
            let mut a2 = a;
            a2.set(w);
            assert!(a2.count_bits() == c0 + 1);
        }
        kani::cover!(c0 == 256);
    }

    // @obligation name=b1_bitmap_as_array1 props=C04 fn=bytesearch::ByteBitmap::as_array kind=complete domain="every 1-element bitmap" min_checks=10
    // When count_bits() == 1, as_array::<1>() is the member.
    #[kani::proof]
    #[kani::unwind(258)]
    fn b1_bitmap_as_array1() {
        let x: u8 = kani::any();
        assert!(ByteBitmap::new(&[x]).as_array::<1>() == [x]);
        kani::cover!(x == 255);
    }

    // @obligation name=b1_bitmap_as_array2 props=C04:t fn=bytesearch::ByteBitmap::as_array kind=complete domain="every 2-element bitmap" min_checks=10
    // When count_bits() == 2, as_array::<2>() lists the two members in increasing order.
    #[kani::proof]
    #[kani::unwind(258)]
    fn b1_bitmap_as_array2() {
        let x: u8 = kani::any();
        let y: u8 = kani::any();
        kani::assume(x < y);
        assert!(ByteBitmap::new(&[y, x]).as_array::<2>() == [x, y]);
        kani::cover!(y == 255 && x == 0);
    }

    // @obligation name=b1_bitmap_as_array3 props=C04:t fn=bytesearch::ByteBitmap::as_array kind=complete domain="every 3-element bitmap" min_checks=10 timeout=2400 w=2
    // When count_bits() == 3, as_array::<3>() lists the three members in increasing order.
    #[kani::proof]
    #[kani::unwind(258)]
    fn b1_bitmap_as_array3() {
        let x: u8 = kani::any();
        let y: u8 = kani::any();
        let z: u8 = kani::any();
        kani::assume(x < y && y < z);
        assert!(ByteBitmap::new(&[z, x, y]).as_array::<3>() == [x, y, z]);
        kani::cover!(z == 255 && x == 0);
    }

    // @obligation name=b3_ascii_bitmap props=C01,C06,C13:t fn=bytesearch::AsciiBitmap::set,bytesearch::AsciiBitmap::contains kind=complete domain="every AsciiBitmap, every byte" min_checks=10
    // AsciiBitmap::contains(v) is false for every v >= 128 and the bit otherwise; set(v) (v <= 127) adds v only.
    #[kani::proof]
    fn b3_ascii_bitmap() {
        let mut bm = AsciiBitmap(kani::any());
        let old = bm;
        let v: u8 = kani::any();
        let w: u8 = kani::any();
        if w >= 128 {
            assert!(!bm.contains(w));
        } else {
            assert!(bm.contains(w) == ((old.0[(w >> 3) as usize] >> (w & 7)) & 1 == 1));
        }
        kani::assume(v <= 127);
        bm.set(v);
        assert!(bm.contains(v));
        if w != v {
            assert!(bm.contains(w) == old.contains(w));
        }
        kani::cover!(w >= 128);
    }

    // @obligation name=b2_bitmap_find_in props=C04,C06,C15 fn=bytesearch::ByteBitmap::find_in,bytesearch::ByteBitmap::unsafe_find_in_slice kind=bounded bound="slices of length 0..=11 at every alignment 0..=3, symbolic contents and bitmap" features=default;prohibit-unsafe min_checks=50 w=2
    // find_in returns the least index whose byte is in the bitmap, None iff no byte is (align_to prefix/body/suffix path and the checked twin).
    #[kani::proof]
    #[kani::unwind(13)]
    fn b2_bitmap_find_in() {
        #[repr(align(4))]
        struct Buf([u8; 16]);
        let buf = Buf(kani::any());
        let off: usize = kani::any();
        let len: usize = kani::any();
        kani::assume(off <= 3 && len <= 11);
        let s = &buf.0[off..off + len];
        let bm = any_bitmap();
        let r = bm.find_in(s);
        match r {
            Some(i) => {
                assert!(i < len && bm.contains(s[i]));
                let j: usize = kani::any();
                kani::assume(j < i);
                assert!(!bm.contains(s[j]));
            }
            None => {
                let j: usize = kani::any();
                kani::assume(j < len);
                assert!(!bm.contains(s[j]));
            }
        }
        kani::cover!(r == Some(9) && off == 1);
        kani::cover!(r.is_none() && len == 11);
    }

    // @obligation name=b4_array4_find_in props=C04 fn=bytesearch::SmallArraySet::find_in kind=bounded bound="slices of length 0..=6" min_checks=20
    // [u8;4]::find_in returns the least index whose byte is one of the four; the contains() of the 2/3/4-arrays is membership.
    #[kani::proof]
    #[kani::unwind(8)]
    fn b4_array4_find_in() {
        let set: [u8; 4] = kani::any();
        let buf: [u8; 6] = kani::any();
        let len: usize = kani::any();
        kani::assume(len <= 6);
        let s = &buf[..len];
        let r = SmallArraySet::find_in(set, s);
        let b: u8 = kani::any();
        assert!(SmallArraySet::contains(set, b) == (b == set[0] || b == set[1] || b == set[2] || b == set[3]));
        let s3: [u8; 3] = kani::any();
        assert!(SmallArraySet::contains(s3, b) == (b == s3[0] || b == s3[1] || b == s3[2]));
        let s2: [u8; 2] = kani::any();
        assert!(SmallArraySet::contains(s2, b) == (b == s2[0] || b == s2[1]));
        assert!(ByteArraySet(s2).contains(b) == (b == s2[0] || b == s2[1]));
        match r {
            Some(i) => {
                assert!(i < len && in4(&set, s[i]));
                let j: usize = kani::any();
                kani::assume(j < i);
                assert!(!in4(&set, s[j]));
            }
            None => {
                let j: usize = kani::any();
                kani::assume(j < len);
                assert!(!in4(&set, s[j]));
            }
        }
        kani::cover!(r == Some(5));
    }

    // @obligation name=b6_charset_contains props=C01,C10:t fn=bytesearch::charset_contains kind=complete domain="every [u32;4], every u32" min_checks=5
    // charset_contains(set, c) <=> c is one of the four entries.
    #[kani::proof]
    #[kani::unwind(6)]
    fn b6_charset_contains() {
        let set: [u32; 4] = kani::any();
        let c: u32 = kani::any();
        assert!(charset_contains(&set, c) == (c == set[0] || c == set[1] || c == set[2] || c == set[3]));
        kani::cover!(charset_contains(&set, c));
    }

    // @obligation name=b4_empty_string_search props=C04,C09:t fn=bytesearch::EmptyString::find_in kind=complete domain="any slice (length irrelevant: the argument is not read)" min_checks=1
    // EmptyString admits every offset: find_in returns Some(0).
    #[kani::proof]
    fn b4_empty_string_search() {
        let buf: [u8; 2] = kani::any();
        let n: usize = kani::any();
        kani::assume(n <= 2);
        assert!(EmptyString {}.find_in(&buf[..n]) == Some(0));
        kani::cover!(n == 0);
    }
}
