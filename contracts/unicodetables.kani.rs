// Contracts for src/unicodetables.rs: the generated tables that have an independent oracle inside the sandbox
// (std's Unicode 17 data, exposed through char::is_* predicates). All other tables have no oracle here and are NOT covered.
#[cfg(kani)]
pub(crate) mod __verif {
    use super::*;
    use crate::codepointset::interval_contains;

    fn sorted_disjoint_nonabutting(t: &[Interval]) -> bool {
        let mut ok = true;
        let mut i = 0;
        while i < t.len() {
            if !(t[i].first <= t[i].last && t[i].last <= 0x10FFFF) { ok = false; }
            if i + 1 < t.len() && !(t[i].last + 1 < t[i + 1].first) { ok = false; }
            i += 1;
        }
        ok
    }

    // @obligation name=c11_white_space_vs_std props=C11 fn=unicodetables::white_space_ranges kind=complete domain="every char" min_checks=10 timeout=900 fs=64
    // \p{White_Space}: the table contains c exactly when std's Unicode data says c has the White_Space property.
    #[kani::proof]
    #[kani::unwind(8)]
    fn c11_white_space_vs_std() {
        let c: char = kani::any();
        assert!(interval_contains(white_space_ranges(), c as u32) == c.is_whitespace());
        kani::cover!(c.is_whitespace() && c as u32 > 0x2000);
    }

    // @obligation name=c11_control_vs_std props=C11 fn=unicodetables::control_ranges kind=complete domain="every char" min_checks=10 timeout=900 fs=64
    // \p{gc=Cc}: the table contains c exactly when std says c is a control character.
    #[kani::proof]
    #[kani::unwind(8)]
    fn c11_control_vs_std() {
        let c: char = kani::any();
        assert!(interval_contains(control_ranges(), c as u32) == c.is_control());
        kani::cover!(c.is_control() && c as u32 > 0x7F);
    }

    // @obligation name=c11_ascii_tables_vs_std props=C11 fn=unicodetables::ascii_ranges,unicodetables::any_ranges,unicodetables::ascii_hex_digit_ranges kind=complete domain="every code point 0..=0x10FFFF" min_checks=10 timeout=900 fs=64
    // \p{ASCII} = 0..=0x7F, \p{Any} = every code point, \p{ASCII_Hex_Digit} = [0-9A-Fa-f].
    #[kani::proof]
    #[kani::unwind(8)]
    fn c11_ascii_tables_vs_std() {
        let cp: u32 = kani::any();
        kani::assume(cp <= 0x10FFFF);
        assert!(interval_contains(ascii_ranges(), cp) == (cp < 128));
        assert!(interval_contains(any_ranges(), cp));
        let hex = (0x30..=0x39).contains(&cp) || (0x41..=0x46).contains(&cp) || (0x61..=0x66).contains(&cp);
        assert!(interval_contains(ascii_hex_digit_ranges(), cp) == hex);
        kani::cover!(hex);
    }

    // @obligation name=c11_tables_well_formed props=C11,C12:t fn=unicodetables::white_space_ranges,unicodetables::control_ranges,unicodetables::ascii_hex_digit_ranges,unicodetables::hex_digit_ranges,unicodetables::dash_ranges,unicodetables::math_ranges kind=complete domain="every entry of 6 tables (concrete evaluation)" min_checks=10 timeout=900 fs=64
    // Tables are sorted, disjoint and non-abutting with ordered intervals <= 0x10FFFF: the precondition of the binary
    // search in interval_contains and of CodePointSet::from_sorted_disjoint_intervals.
    #[kani::proof]
    #[kani::unwind(160)]
    fn c11_tables_well_formed() {
        assert!(sorted_disjoint_nonabutting(white_space_ranges()));
        assert!(sorted_disjoint_nonabutting(control_ranges()));
        assert!(sorted_disjoint_nonabutting(ascii_hex_digit_ranges()));
        assert!(sorted_disjoint_nonabutting(hex_digit_ranges()));
        assert!(sorted_disjoint_nonabutting(dash_ranges()));
        assert!(sorted_disjoint_nonabutting(math_ranges()));
        kani::cover!(true);
    }
}
