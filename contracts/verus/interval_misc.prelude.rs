use vstd::prelude::*;
use core::cmp::{self, Ordering};
verus! {

pub type CodePoint = u32;
pub const CODE_POINT_MAX: CodePoint = 0x10FFFF;

#[derive(Copy, Clone, PartialEq, Eq)]
pub struct Interval {
    pub first: CodePoint,
    pub last: CodePoint,
}

pub struct CodePointSet {
    pub ivs: Vec<Interval>,
}

pub open spec fn iv_wf(iv: Interval) -> bool { iv.first <= iv.last && iv.last <= CODE_POINT_MAX }

pub open spec fn ivs_wf(s: Seq<Interval>) -> bool {
    (forall|i: int| 0 <= i < s.len() ==> iv_wf(#[trigger] s[i]))
    && (forall|i: int, j: int| 0 <= i < j < s.len() ==> (#[trigger] s[i]).last + 1 < (#[trigger] s[j]).first)
}

pub open spec fn ivs_has(s: Seq<Interval>, cp: int) -> bool {
    exists|i: int| 0 <= i < s.len() && (#[trigger] s[i]).first <= cp <= s[i].last
}

/// Number of maximal gaps of a well-formed interval list inside 0..=CODE_POINT_MAX (= number of intervals of the complement).
pub open spec fn gap_count(s: Seq<Interval>) -> int {
    if s.len() == 0 { 1 } else {
        (if s[0].first > 0 { 1int } else { 0int }) + (s.len() - 1) + (if s[s.len() - 1].last < CODE_POINT_MAX { 1int } else { 0int })
    }
}

// In a well-formed list the k-th interval starts at or after 2k, hence there are at most 0x88000 intervals.
proof fn lemma_wf_first_lower_bound(s: Seq<Interval>, k: int)
    requires ivs_wf(s), 0 <= k < s.len(),
    ensures s[k].first >= 2 * k,
    decreases k,
{
    if k > 0 {
        lemma_wf_first_lower_bound(s, k - 1);
        assert(iv_wf(s[k - 1]));
        assert(s[k - 1].last + 1 < s[k].first);
    }
}

proof fn lemma_wf_len(s: Seq<Interval>)
    requires ivs_wf(s),
    ensures s.len() <= 0x88000,
{
    if s.len() > 0 {
        let k = s.len() - 1;
        lemma_wf_first_lower_bound(s, k);
        assert(iv_wf(s[k]));
    }
}

impl Interval {
//@@EXTRACTED:compare@@

//@@EXTRACTED:is_before@@

//@@EXTRACTED:is_strictly_before@@

//@@EXTRACTED:mergecmp@@

//@@EXTRACTED:contains@@

//@@EXTRACTED:overlaps@@

//@@EXTRACTED:count_codepoints@@
}

impl CodePointSet {
    pub open spec fn wf(&self) -> bool { ivs_wf(self.ivs@) }
    pub open spec fn has(&self, cp: int) -> bool { ivs_has(self.ivs@, cp) }

//@@EXTRACTED:is_empty@@

//@@EXTRACTED:inverted_interval_count@@
}

} // verus!
fn main() {}
