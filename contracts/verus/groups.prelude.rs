// Prelude of the Verus unit cv_groups (numbered group accessors of src/api.rs).
// Re-stated declarations (rule X6, checked textually): type Range, struct Match {range, captures, group_names},
// struct Groups {mat, next_group_idx, max}. `Iterator::next` of Groups is extracted from the `impl Iterator for Groups<'_>`
// block and verified as an inherent method (Self::Item = Option<Range>). Assumed std contract: Range<Idx>::clone clones
// both ends (derive(Clone) in core).
use vstd::prelude::*;
verus! {

pub type Range = core::ops::Range<usize>;

pub assume_specification<Idx: Clone>[ <core::ops::Range<Idx> as Clone>::clone ](r: &core::ops::Range<Idx>) -> (c: core::ops::Range<Idx>)
    ensures
        call_ensures(Idx::clone, (&r.start,), c.start),
        call_ensures(Idx::clone, (&r.end,), c.end),
;

pub struct Match {
    pub range: Range,
    pub captures: Vec<Option<Range>>,
    pub group_names: Box<[Box<str>]>,
}

/// group(idx) as a function: 0 is the whole match, 1..=n the captures, nothing beyond
pub open spec fn group_spec(m: &Match, idx: int) -> Option<Range> {
    if idx == 0 { Some(m.range) } else if 1 <= idx <= m.captures@.len() { m.captures@[idx - 1] } else { None }
}

impl Match {
//@@EXTRACTED:group@@

//@@EXTRACTED:range@@

//@@EXTRACTED:start@@

//@@EXTRACTED:end@@
}

pub struct Groups<'m> {
    pub mat: &'m Match,
    pub next_group_idx: usize,
    pub max: usize,
}

impl<'m> Groups<'m> {
    /// the iterator is in a state reachable from new(): max = n + 1 and the index has not run past it
    pub open spec fn wf(&self) -> bool {
        self.max == self.mat.captures@.len() + 1 && self.next_group_idx <= self.max
    }

//@@EXTRACTED:groups_new@@

//@@EXTRACTED:groups_next@@
}

} // verus!
fn main() {}
