// Prelude of the Verus unit cv_drivers (search drivers of src/classicalbacktrack.rs).
// Re-stated declarations (rule X6, checked textually against the source on every run): the trait InputIndexer restricted to
// the items the drivers use (Position, CODE_UNITS_ARE_BYTES, next_right_pos, find_bytes), Direction/Forward, ByteSearcher,
// MatchAttempter::try_at_pos and BacktrackExecutor {input, matcher}. Their CONTRACTS are assumptions of this unit:
//   * positions are identified with offsets (off/at), `boundary(o)` = o is a character boundary;
//   * next_right_pos(p) = the next boundary after p, None iff there is none up to len   (Kani: a3_*, indexing.kani.rs)
//   * find_bytes(p, s) = the first boundary >= p admitted by s, None iff there is none  (Kani: b4_/b5_*, f1_*)
//   * try_at_pos(inp, 0, p, Forward) = attempt(inp, p), an uninterpreted function (deterministic, independent of the
//     executor's scratch state), ending at a valid position >= p                        (Kani: E2/E3/E9 per instruction)
//   * successful_match(start, end) reports the offsets of start and end                 (Kani: e9_bt_successful_match)
//   * `==` on positions is identity (derive(PartialEq) on the position types)
use vstd::prelude::*;
use vstd::std_specs::cmp::*;
verus! {

pub type IP = usize;

// Assumed contract of std (trusted, listed in the evidence): Option::or (core::option documentation).
pub assume_specification<T>[ Option::<T>::or ](a: Option<T>, b: Option<T>) -> (r: Option<T>)
    ensures r == (if a.is_some() { a } else { b }),
;

pub trait Direction: Copy {}
#[derive(Copy, Clone)]
pub struct Forward {}
impl Direction for Forward {}
impl Forward {
    pub fn new() -> Self { Forward {} }
}

pub mod bytesearch {
    use vstd::prelude::*;
    verus! {
    pub trait ByteSearcher {}
    }
}

/// Abstract input: positions are identified with their offsets; `boundary(o)` says that offset o is a character boundary.
pub trait InputIndexer: Copy {
    type Position: Copy + PartialEq;
    const CODE_UNITS_ARE_BYTES: bool;

    spec fn len(&self) -> int;
    spec fn off(&self, p: Self::Position) -> int;
    spec fn at(&self, o: int) -> Self::Position;
    spec fn boundary(&self, o: int) -> bool;
    /// does the prefilter admit the character starting at offset o
    spec fn admits<S: bytesearch::ByteSearcher>(&self, s: &S, o: int) -> bool;

    proof fn eq_is_identity(&self)
        ensures
            Self::Position::obeys_eq_spec(),
            forall|a: Self::Position, b: Self::Position| a.eq_spec(&b) == (a == b),
    ;

    fn next_right_pos(&self, pos: Self::Position) -> (r: Option<Self::Position>)
        requires (0 <= self.off(pos) <= self.len() && self.boundary(self.off(pos)) && self.at(self.off(pos)) == pos),
        ensures
            r.is_some() ==> (0 <= self.off(r.unwrap()) <= self.len() && self.boundary(self.off(r.unwrap())) && self.at(self.off(r.unwrap())) == r.unwrap()) && self.off(r.unwrap()) > self.off(pos)
                && forall|o: int| self.off(pos) < o < self.off(r.unwrap()) ==> !#[trigger] self.boundary(o),
            r.is_none() ==> forall|o: int| self.off(pos) < o <= self.len() ==> !#[trigger] self.boundary(o),
    ;

    /// moves by code units, NOT by characters: the result need not be a character boundary
    fn try_move_right(&self, pos: Self::Position, amt: usize) -> (r: Option<Self::Position>)
        requires 0 <= self.off(pos) <= self.len(),
        ensures
            r.is_some() <==> self.off(pos) + amt <= self.len(),
            r.is_some() ==> self.off(r.unwrap()) == self.off(pos) + amt && self.at(self.off(r.unwrap())) == r.unwrap(),
    ;

    fn left_end(&self) -> (r: Self::Position)
        ensures self.off(r) == 0, self.boundary(0), self.at(0) == r, self.len() >= 0,
    ;

    fn right_end(&self) -> (r: Self::Position)
        ensures self.off(r) == self.len(), self.boundary(self.len()), self.at(self.len()) == r, self.len() >= 0,
    ;

    fn find_bytes<Search: bytesearch::ByteSearcher>(&self, pos: Self::Position, search: &Search) -> (r: Option<Self::Position>)
        requires (0 <= self.off(pos) <= self.len() && self.boundary(self.off(pos)) && self.at(self.off(pos)) == pos),
        ensures
            r.is_some() ==> (0 <= self.off(r.unwrap()) <= self.len() && self.boundary(self.off(r.unwrap())) && self.at(self.off(r.unwrap())) == r.unwrap()) && self.off(r.unwrap()) >= self.off(pos)
                && self.admits(search, self.off(r.unwrap()))
                && forall|o: int| self.off(pos) <= o < self.off(r.unwrap()) && #[trigger] self.boundary(o) ==> !self.admits(search, o),
            r.is_none() ==> forall|o: int| self.off(pos) <= o <= self.len() && #[trigger] self.boundary(o) ==> !self.admits(search, o),
    ;
}

/// p is a position of the input: its offset is an in-range character boundary and identifies it
pub open spec fn valid<Input: InputIndexer>(inp: Input, p: Input::Position) -> bool {
    0 <= inp.off(p) <= inp.len() && inp.boundary(inp.off(p)) && inp.at(inp.off(p)) == p
}

/// The regex's answer at a position: an uninterpreted function of (input, position) - the contract of try_at_pos.
pub uninterp spec fn attempt<Input: InputIndexer>(inp: Input, pos: Input::Position) -> Option<Input::Position>;

#[verifier::external_body]
pub struct Match { _p: () }
pub uninterp spec fn match_start(m: &Match) -> int;
pub uninterp spec fn match_end(m: &Match) -> int;

pub struct MatchAttempter<Input: InputIndexer> { pub x: core::marker::PhantomData<Input> }

impl<Input: InputIndexer> MatchAttempter<Input> {
    #[verifier::external_body]
    pub fn try_at_pos<Dir: Direction>(&mut self, inp: Input, ip: IP, pos: Input::Position, dir: Dir) -> (r: Option<Input::Position>)
        requires valid(inp, pos), ip == 0,
        ensures
            r == attempt(inp, pos),
            r.is_some() ==> valid(inp, r.unwrap()) && inp.off(pos) <= inp.off(r.unwrap()),
    {
        unimplemented!()
    }
}

pub struct BacktrackExecutor<Input: InputIndexer> {
    pub input: Input,
    pub matcher: MatchAttempter<Input>,
}

/// adm(o): the driver may attempt a match at boundary o
pub open spec fn adm<Input: InputIndexer, S: bytesearch::ByteSearcher>(inp: Input, s: &S, o: int) -> bool {
    !Input::CODE_UNITS_ARE_BYTES || inp.admits(s, o)
}

impl<Input: InputIndexer> BacktrackExecutor<Input> {
    #[verifier::external_body]
    fn successful_match(&mut self, start: Input::Position, end: Input::Position) -> (m: Match)
        ensures
            match_start(&m) == old(self).input.off(start), match_end(&m) == old(self).input.off(end),
            final(self).input == old(self).input,
    {
        unimplemented!()
    }

//@@EXTRACTED:next_match_anchored@@

//@@EXTRACTED:next_match_with_prefix_search@@

//@@EXTRACTED:initial_position@@
}

} // verus!
fn main() {}
