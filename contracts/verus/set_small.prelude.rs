// Prelude of the Verus unit cv_set_small (small functions of src/codepointset.rs that `add` and its callers are built from).
// Same re-stated declarations as cv_add_set.
// ASSUMED contract: CodePointSet::add keeps the set well formed and adds exactly the interval's code points (its closure/iterator
// adapter/drain body is outside what Verus accepts; discharged separately, bounded, by the Kani obligations ck1_add_*).
use vstd::prelude::*;
use core::cmp::{self, Ordering};
use vstd::std_specs::cmp::*;
verus! {

pub type CodePoint = u32;
pub const CODE_POINT_MAX: CodePoint = 0x10FFFF;

#[derive(Copy, Clone, PartialEq, Eq)]
pub struct Interval {
    pub first: CodePoint,
    pub last: CodePoint,
}

pub struct CodePointSet {
    pub ivs: Vec<Interval>,
}

pub open spec fn iv_wf(iv: Interval) -> bool { iv.first <= iv.last && iv.last <= CODE_POINT_MAX }

pub open spec fn ivs_wf(s: Seq<Interval>) -> bool {
    (forall|i: int| 0 <= i < s.len() ==> iv_wf(#[trigger] s[i]))
    && (forall|i: int, j: int| 0 <= i < j < s.len() ==> (#[trigger] s[i]).last + 1 < (#[trigger] s[j]).first)
}

pub open spec fn ivs_has(s: Seq<Interval>, cp: int) -> bool {
    exists|i: int| 0 <= i < s.len() && (#[trigger] s[i]).first <= cp <= s[i].last
}

pub open spec fn iv_has(iv: Interval, cp: int) -> bool { iv.first <= cp <= iv.last }

/// Two intervals overlap or abut: their union is one interval.
pub open spec fn iv_mergeable(a: Interval, b: Interval) -> bool {
    !(a.last + 1 < b.first) && !(b.last + 1 < a.first)
}

// Assumed contracts of std (trusted, listed in the evidence): max returns the second argument unless the first is greater,
// min returns the first argument unless it is greater (core::cmp documentation).
pub assume_specification<T: Ord>[ core::cmp::max ](a: T, b: T) -> (r: T)
    ensures T::obeys_cmp_spec() ==> r == (if a.cmp_spec(&b) == core::cmp::Ordering::Greater { a } else { b }),
;
pub assume_specification<T: Ord>[ core::cmp::min ](a: T, b: T) -> (r: T)
    ensures T::obeys_cmp_spec() ==> r == (if a.cmp_spec(&b) == core::cmp::Ordering::Greater { b } else { a }),
;

// Assumed (trusted, listed in the evidence): `#[derive(PartialEq)]` on Interval and core's PartialEq for Ordering are
// structural equality.
#[verifier::external_body]
proof fn axiom_derived_eq()
    ensures
        Ordering::obeys_eq_spec(), forall|a: Ordering, b: Ordering| a.eq_spec(&b) == (a == b),
        Interval::obeys_eq_spec(), forall|a: Interval, b: Interval| a.eq_spec(&b) == (a == b),
{}

// A well-formed list contains every code point iff it is the single interval [0, CODE_POINT_MAX].
proof fn lemma_all_codepoints(s: Seq<Interval>)
    requires ivs_wf(s),
    ensures (forall|cp: int| 0 <= cp <= CODE_POINT_MAX ==> ivs_has(s, cp))
        <==> (s.len() == 1 && s[0] == (Interval { first: 0, last: CODE_POINT_MAX })),
{
    if s.len() == 1 && s[0] == (Interval { first: 0, last: CODE_POINT_MAX }) {
        assert forall|cp: int| 0 <= cp <= CODE_POINT_MAX implies ivs_has(s, cp) by {
            assert(s[0].first <= cp <= s[0].last);
        }
    }
    if forall|cp: int| 0 <= cp <= CODE_POINT_MAX ==> ivs_has(s, cp) {
        assert(ivs_has(s, 0));
        let i = choose|i: int| 0 <= i < s.len() && (#[trigger] s[i]).first <= 0 <= s[i].last;
        if i > 0 { assert(s[0].last + 1 < s[i].first); }
        assert(i == 0);
        assert(iv_wf(s[0]));
        if s[0].last < CODE_POINT_MAX {
            let c = s[0].last + 1;
            assert(ivs_has(s, c));
            let j = choose|j: int| 0 <= j < s.len() && (#[trigger] s[j]).first <= c <= s[j].last;
            if j > 0 { assert(s[0].last + 1 < s[j].first); }
            assert(false);
        }
        if s.len() > 1 {
            assert(s[0].last + 1 < s[1].first);
            assert(iv_wf(s[1]));
            assert(false);
        }
    }
}

impl Interval {
//@@EXTRACTED:iv_new@@

//@@EXTRACTED:is_strictly_before@@

//@@EXTRACTED:mergecmp@@

//@@EXTRACTED:mergeable@@
}

//@@EXTRACTED:merge_intervals@@

impl CodePointSet {
    pub open spec fn wf(&self) -> bool { ivs_wf(self.ivs@) }
    pub open spec fn has(&self, cp: int) -> bool { ivs_has(self.ivs@, cp) }

    // Assumed contract of add (discharged separately, bounded, by the Kani obligations ck1_add_*): a well-formed set stays
    // well formed and gains exactly the code points of the interval.
    #[verifier::external_body]
    pub fn add(&mut self, new_iv: Interval)
        requires old(self).wf(), iv_wf(new_iv),
        ensures final(self).wf(), forall|cp: int| final(self).has(cp) <==> (old(self).has(cp) || new_iv.first <= cp <= new_iv.last),
    { unimplemented!() }

// assert_is_well_formed is a debug-only check (cfg!(debug_assertions), slice::windows: outside what Verus accepts): its assertions
    // are turned into the precondition, so every call of it in verified text is a proof obligation; it has no effect.
    #[verifier::external_body]
    fn assert_is_well_formed(&self)
        requires self.wf(),
    { }

//@@EXTRACTED:from_sorted@@

//@@EXTRACTED:set_new@@

//@@EXTRACTED:clear@@

//@@EXTRACTED:contains_all_codepoints@@

//@@EXTRACTED:add_one@@
}

} // verus!
fn main() {}
