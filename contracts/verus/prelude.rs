use vstd::prelude::*;
verus! {

pub type CodePoint = u32;
pub const CODE_POINT_MAX: CodePoint = 0x10FFFF;

#[derive(Copy, Clone, PartialEq, Eq)]
pub struct Interval {
    pub first: CodePoint,
    pub last: CodePoint,
}

pub struct CodePointSet {
    pub ivs: Vec<Interval>,
}

pub open spec fn iv_wf(iv: Interval) -> bool { iv.first <= iv.last && iv.last <= CODE_POINT_MAX }

pub open spec fn ivs_wf(s: Seq<Interval>) -> bool {
    (forall|i: int| 0 <= i < s.len() ==> iv_wf(#[trigger] s[i]))
    && (forall|i: int, j: int| 0 <= i < j < s.len() ==> (#[trigger] s[i]).last + 1 < (#[trigger] s[j]).first)
}

pub open spec fn ivs_has(s: Seq<Interval>, cp: int) -> bool {
    exists|i: int| 0 <= i < s.len() && (#[trigger] s[i]).first <= cp <= s[i].last
}

/// Number of maximal gaps of a well-formed interval list inside 0..=CODE_POINT_MAX (= number of intervals of the complement).
pub open spec fn gap_count(s: Seq<Interval>) -> int {
    if s.len() == 0 { 1 } else {
        (if s[0].first > 0 { 1int } else { 0int }) + (s.len() - 1) + (if s[s.len() - 1].last < CODE_POINT_MAX { 1int } else { 0int })
    }
}

proof fn lemma_has_push(s: Seq<Interval>, iv: Interval, cp: int)
    ensures ivs_has(s.push(iv), cp) <==> (ivs_has(s, cp) || iv.first <= cp <= iv.last)
{
    let t = s.push(iv);
    if ivs_has(s, cp) {
        let i = choose|i: int| 0 <= i < s.len() && (#[trigger] s[i]).first <= cp <= s[i].last;
        assert(t[i] == s[i]);
    }
    if iv.first <= cp <= iv.last {
        assert(t[s.len() as int] == iv);
    }
    if ivs_has(t, cp) {
        let i = choose|i: int| 0 <= i < t.len() && (#[trigger] t[i]).first <= cp <= t[i].last;
        if i < s.len() { assert(t[i] == s[i]); }
    }
}

impl CodePointSet {
    pub open spec fn wf(&self) -> bool { ivs_wf(self.ivs@) }
    pub open spec fn has(&self, cp: int) -> bool { ivs_has(self.ivs@, cp) }

    // Callee contract used modularly here: the constructor stores the vector; its debug assertion (assert_is_well_formed) is
    // turned into the precondition, so it is a proof obligation at every call site. The real body is verified against exactly
    // this contract by the unit cv_set_small (item from_sorted).
    #[verifier::external_body]
    pub fn from_sorted_disjoint_intervals(ivs: Vec<Interval>) -> (r: CodePointSet)
        requires ivs_wf(ivs@),
        ensures r.ivs@ == ivs@,
    {
        CodePointSet { ivs }
    }

//@@EXTRACTED:inverted@@
}

} // verus!
fn main() {}
