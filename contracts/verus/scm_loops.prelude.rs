use vstd::prelude::*;
verus! {

pub trait InputIndexer { type Position: Copy; }
pub trait Direction: Copy {}

pub trait SingleCharMatcher<Input: InputIndexer, Dir: Direction> {
    /// Abstract meaning of one application of the matcher at `pos`: the position after the matched character, or None.
    spec fn step(&self, input: &Input, pos: Input::Position) -> Option<Input::Position>;

    fn matches(&self, input: &Input, dir: Dir, pos: &mut Input::Position) -> (r: bool)
        ensures
            r == self.step(input, *old(pos)).is_some(),
            r ==> *final(pos) == self.step(input, *old(pos)).unwrap(),
    ;
}

pub open spec fn iter_step<Input: InputIndexer, Dir: Direction, Scm: SingleCharMatcher<Input, Dir>>(m: &Scm, input: &Input, pos: Input::Position, k: nat) -> Option<Input::Position>
    decreases k,
{
    if k == 0 { Some(pos) } else {
        match iter_step::<Input, Dir, Scm>(m, input, pos, (k - 1) as nat) {
            Some(p) => m.step(input, p),
            None => None,
        }
    }
}

proof fn lemma_iter_none_monotone<Input: InputIndexer, Dir: Direction, Scm: SingleCharMatcher<Input, Dir>>(m: &Scm, input: &Input, pos: Input::Position, j: nat, k: nat)
    requires j <= k, iter_step::<Input, Dir, Scm>(m, input, pos, j).is_none(),
    ensures iter_step::<Input, Dir, Scm>(m, input, pos, k).is_none(),
    decreases k,
{
    if j < k {
        lemma_iter_none_monotone::<Input, Dir, Scm>(m, input, pos, j, (k - 1) as nat);
    }
}

pub struct Holder<Input: InputIndexer> { pub x: core::marker::PhantomData<Input> }

impl<Input: InputIndexer> Holder<Input> {
//@@EXTRACTED:run_scm_loop_impl@@

//@@EXTRACTED:compute_max_pos@@
}

} // verus!
fn main() {}
