// Prelude of the Verus unit cv_last_match (RegexSearcher::find_last_match_before of src/api.rs, nested module pattern_impl).
// The `for m in self.regex.find_from(self.haystack, 0)` loop is verified through vstd's iterator protocol (IteratorSpecImpl):
// `Matches` is re-declared as an opaque iterator whose prophetic `remaining()` sequence is, for find_from(text, start), the
// uninterpreted match sequence match_seq(regex, text, start) - ASSUMED (this is C09's statement: cv_drivers/cv_matches and the Kani
// f3_* obligations); `Iterator::next` for it is external_body, i.e. assumed to obey vstd's Iterator::next contract for that sequence.
// Match::end as in cv_searcher. Re-stated declarations are checked textually (rule X6).
use vstd::prelude::*;
use vstd::std_specs::iter::IteratorSpecImpl;
verus! {
#[verifier::external_body]
pub struct Match { _p: () }
pub uninterp spec fn m_end(m: &Match) -> int;
impl Match {
    #[verifier::external_body]
    pub fn end(&self) -> (r: usize) ensures r == m_end(self) { unimplemented!() }
}
#[verifier::external_body]
pub struct Regex { _p: () }
#[verifier::external_body]
pub struct Matches { _p: () }
pub uninterp spec fn match_seq(re: &Regex, text: &str, start: int) -> Seq<Match>;
pub uninterp spec fn it_seq(it: &Matches) -> Seq<Match>;
impl IteratorSpecImpl for Matches {
    open spec fn obeys_prophetic_iter_laws(&self) -> bool { true }
    open spec fn remaining(&self) -> Seq<Match> { it_seq(self) }
    open spec fn will_return_none(&self) -> bool { true }
    open spec fn decrease(&self) -> Option<nat> { Some(it_seq(self).len()) }
    open spec fn peek(&self, i: int) -> Option<Match> { if 0 <= i < it_seq(self).len() { Some(it_seq(self)[i]) } else { None } }
}
impl Iterator for Matches {
    type Item = Match;
    #[verifier::external_body]
    fn next(&mut self) -> (r: Option<Match>) { unimplemented!() }
}
impl Regex {
    #[verifier::external_body]
    pub fn find_from<'r, 't>(&'r self, text: &'t str, start: usize) -> (r: Matches)
        ensures it_seq(&r) == match_seq(self, text, start as int),
    { unimplemented!() }
}
pub struct RegexSearcher<'r, 't> { pub haystack: &'t str, pub regex: &'r Regex }

pub open spec fn is_last_before(s: Seq<Match>, pos: int, r: Option<Match>) -> bool {
    exists|k: int| 0 <= k <= s.len() && (forall|j: int| 0 <= j < k ==> m_end(&#[trigger] s[j]) <= pos)
        && (k < s.len() ==> m_end(&s[k]) > pos) && r == (if k == 0 { None } else { Some(s[k - 1]) })
}

impl<'r, 't> RegexSearcher<'r, 't> {
//@@EXTRACTED:find_last_match_before@@
}
}
fn main(){}
