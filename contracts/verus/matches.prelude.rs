// Prelude of the Verus unit cv_matches (the match iterator of src/exec.rs).
// Re-stated declarations (rule X6, checked textually against the source on every run): trait MatchProducer
// {Position, initial_position, next_match} and struct Matches {mp, position}. The producer is abstract: its two methods
// are specified by uninterpreted functions of the producer's logical content (regex + input); the implementations are
// the subject of cv_drivers (backtracker, unbounded) and of the Kani obligations f_pk_* (PikeVM).
// `Iterator::next` is verified as an inherent method: its body is extracted verbatim from the `impl Iterator for Matches`
// block and its signature `fn next(&mut self) -> Option<Self::Item>` is re-stated with Item = Match.
use vstd::prelude::*;
verus! {

#[verifier::external_body]
pub struct Match { _p: () }

pub trait MatchProducer {
    type Position: Copy;

    spec fn init(&self, offset: usize) -> Option<Self::Position>;
    /// result of searching from pos
    spec fn nm_result(&self, pos: Self::Position) -> Option<Match>;
    /// cursor after searching from pos, given the cursor before the call
    spec fn nm_cursor(&self, pos: Self::Position, prev: Option<Self::Position>) -> Option<Self::Position>;
    /// two producer values with the same logical content (regex, input): scratch state may differ
    spec fn same(&self, other: &Self) -> bool;

    proof fn same_is_congruence(&self, other: &Self)
        requires self.same(other),
        ensures
            forall|p: Self::Position| self.nm_result(p) == other.nm_result(p),
            forall|p: Self::Position, c: Option<Self::Position>| self.nm_cursor(p, c) == other.nm_cursor(p, c),
    ;

    fn initial_position(&self, offset: usize) -> (r: Option<Self::Position>)
        ensures r == self.init(offset),
    ;

    fn next_match(&mut self, pos: Self::Position, next_start: &mut Option<Self::Position>) -> (r: Option<Match>)
        ensures
            r == old(self).nm_result(pos),
            *final(next_start) == old(self).nm_cursor(pos, *old(next_start)),
            final(self).same(old(self)),
    ;
}

pub struct Matches<Producer: MatchProducer> {
    pub mp: Producer,
    pub position: Option<Producer::Position>,
}

impl<Producer: MatchProducer> Matches<Producer> {
//@@EXTRACTED:new@@

//@@EXTRACTED:next@@
}

} // verus!
fn main() {}
