use vstd::prelude::*;
use core::cmp;
use vstd::std_specs::cmp::*;
verus! {

pub type CodePoint = u32;
pub const CODE_POINT_MAX: CodePoint = 0x10FFFF;

#[derive(Copy, Clone, PartialEq, Eq)]
pub struct Interval {
    pub first: CodePoint,
    pub last: CodePoint,
}

pub struct CodePointSet {
    pub ivs: Vec<Interval>,
}

pub open spec fn iv_wf(iv: Interval) -> bool { iv.first <= iv.last && iv.last <= CODE_POINT_MAX }

pub open spec fn ivs_wf(s: Seq<Interval>) -> bool {
    (forall|i: int| 0 <= i < s.len() ==> iv_wf(#[trigger] s[i]))
    && (forall|i: int, j: int| 0 <= i < j < s.len() ==> (#[trigger] s[i]).last + 1 < (#[trigger] s[j]).first)
}

pub open spec fn ivs_has(s: Seq<Interval>, cp: int) -> bool {
    exists|i: int| 0 <= i < s.len() && (#[trigger] s[i]).first <= cp <= s[i].last
}



pub open spec fn inter_row(sv: Seq<Interval>, iv: Interval, j: int, cp: int) -> bool {
    iv.first <= cp <= iv.last && ivs_has(sv.subrange(0, j), cp)
}

proof fn lemma_has_subrange_step(s: Seq<Interval>, j: int, cp: int)
    requires 0 <= j < s.len(),
    ensures ivs_has(s.subrange(0, j + 1), cp) <==> (ivs_has(s.subrange(0, j), cp) || s[j].first <= cp <= s[j].last),
{
    let a = s.subrange(0, j);
    let b = s.subrange(0, j + 1);
    if ivs_has(a, cp) {
        let k = choose|k: int| 0 <= k < a.len() && (#[trigger] a[k]).first <= cp <= a[k].last;
        assert(b[k] == a[k]);
    }
    if s[j].first <= cp <= s[j].last {
        assert(b[j] == s[j]);
    }
    if ivs_has(b, cp) {
        let k = choose|k: int| 0 <= k < b.len() && (#[trigger] b[k]).first <= cp <= b[k].last;
        if k < j { assert(a[k] == b[k]); } else { assert(b[k] == s[j]); }
    }
}

proof fn lemma_has_push2(s: Seq<Interval>, iv: Interval, cp: int)
    ensures ivs_has(s.push(iv), cp) <==> (ivs_has(s, cp) || iv.first <= cp <= iv.last)
{
    let t = s.push(iv);
    if ivs_has(s, cp) {
        let i = choose|i: int| 0 <= i < s.len() && (#[trigger] s[i]).first <= cp <= s[i].last;
        assert(t[i] == s[i]);
    }
    if iv.first <= cp <= iv.last {
        assert(t[s.len() as int] == iv);
    }
    if ivs_has(t, cp) {
        let i = choose|i: int| 0 <= i < t.len() && (#[trigger] t[i]).first <= cp <= t[i].last;
        if i < s.len() { assert(t[i] == s[i]); }
    }
}

// One iteration of the inner loop preserves the membership invariant.
proof fn lemma_inner_step(sv: Seq<Interval>, xs: Seq<Interval>, old_new: Seq<Interval>, new_new: Seq<Interval>, iv: Interval, i: int, j: int)
    requires
        0 <= j < sv.len(),
        forall|cp: int| ivs_has(old_new, cp) <==> ((ivs_has(sv, cp) && ivs_has(xs.subrange(0, i), cp)) || inter_row(sv, iv, j, cp)),
        ({
            let s = sv[j];
            let ov = iv.first <= s.last && s.first <= iv.last;
            let r = Interval { first: if iv.first > s.first { iv.first } else { s.first }, last: if iv.last > s.last { s.last } else { iv.last } };
            (ov ==> new_new == old_new.push(r)) && (!ov ==> new_new == old_new)
        }),
    ensures
        forall|cp: int| ivs_has(new_new, cp) <==> ((ivs_has(sv, cp) && ivs_has(xs.subrange(0, i), cp)) || inter_row(sv, iv, j + 1, cp)),
{
    let s = sv[j];
    let ov = iv.first <= s.last && s.first <= iv.last;
    let r = Interval { first: if iv.first > s.first { iv.first } else { s.first }, last: if iv.last > s.last { s.last } else { iv.last } };
    assert forall|cp: int| ivs_has(new_new, cp) <==> ((ivs_has(sv, cp) && ivs_has(xs.subrange(0, i), cp)) || inter_row(sv, iv, j + 1, cp)) by {
        lemma_has_subrange_step(sv, j, cp);
        if ov { lemma_has_push2(old_new, r, cp); }
    }
}

// After the inner loop the row is complete: fold it into the outer membership invariant.
proof fn lemma_outer_step(sv: Seq<Interval>, xs: Seq<Interval>, new_new: Seq<Interval>, iv: Interval, i: int)
    requires
        0 <= i < xs.len(),
        xs[i] == iv,
        forall|cp: int| ivs_has(new_new, cp) <==> ((ivs_has(sv, cp) && ivs_has(xs.subrange(0, i), cp)) || inter_row(sv, iv, sv.len() as int, cp)),
    ensures
        forall|cp: int| ivs_has(new_new, cp) <==> (ivs_has(sv, cp) && ivs_has(xs.subrange(0, i + 1), cp)),
{
    assert(sv.subrange(0, sv.len() as int) == sv);
    assert forall|cp: int| ivs_has(new_new, cp) <==> (ivs_has(sv, cp) && ivs_has(xs.subrange(0, i + 1), cp)) by {
        lemma_has_subrange_step(xs, i, cp);
    }
}

// Assumed contracts of std (trusted, listed in the evidence): max returns the second argument unless the first is greater,
// min returns the first argument unless it is greater (core::cmp documentation).
pub assume_specification<T: Ord>[ core::cmp::max ](a: T, b: T) -> (r: T)
    ensures T::obeys_cmp_spec() ==> r == (if a.cmp_spec(&b) == core::cmp::Ordering::Greater { a } else { b }),
;
pub assume_specification<T: Ord>[ core::cmp::min ](a: T, b: T) -> (r: T)
    ensures T::obeys_cmp_spec() ==> r == (if a.cmp_spec(&b) == core::cmp::Ordering::Greater { b } else { a }),
;

impl Interval {
//@@EXTRACTED:is_before@@

//@@EXTRACTED:overlaps@@
}

impl CodePointSet {
    pub open spec fn wf(&self) -> bool { ivs_wf(self.ivs@) }
    pub open spec fn has(&self, cp: int) -> bool { ivs_has(self.ivs@, cp) }

//@@EXTRACTED:intervals@@

//@@EXTRACTED:intersect@@
}

} // verus!
fn main() {}
