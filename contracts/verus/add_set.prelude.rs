// Prelude of the Verus unit cv_add_set (CodePointSet::add_set of src/codepointset.rs). Same re-stated declarations as cv_intersect.
// ASSUMED contract: CodePointSet::add keeps the set well formed and adds exactly the interval's code points (its closure/iterator
// adapter/drain body is outside what Verus accepts; discharged separately, bounded, by the Kani obligations ck1_add_*).
use vstd::prelude::*;
verus! {

pub type CodePoint = u32;
pub const CODE_POINT_MAX: CodePoint = 0x10FFFF;

#[derive(Copy, Clone, PartialEq, Eq)]
pub struct Interval {
    pub first: CodePoint,
    pub last: CodePoint,
}

pub struct CodePointSet {
    pub ivs: Vec<Interval>,
}

pub open spec fn iv_wf(iv: Interval) -> bool { iv.first <= iv.last && iv.last <= CODE_POINT_MAX }

pub open spec fn ivs_wf(s: Seq<Interval>) -> bool {
    (forall|i: int| 0 <= i < s.len() ==> iv_wf(#[trigger] s[i]))
    && (forall|i: int, j: int| 0 <= i < j < s.len() ==> (#[trigger] s[i]).last + 1 < (#[trigger] s[j]).first)
}

pub open spec fn ivs_has(s: Seq<Interval>, cp: int) -> bool {
    exists|i: int| 0 <= i < s.len() && (#[trigger] s[i]).first <= cp <= s[i].last
}

proof fn lemma_has_subrange_step(s: Seq<Interval>, j: int, cp: int)
    requires 0 <= j < s.len(),
    ensures ivs_has(s.subrange(0, j + 1), cp) <==> (ivs_has(s.subrange(0, j), cp) || s[j].first <= cp <= s[j].last),
{
    let a = s.subrange(0, j);
    let b = s.subrange(0, j + 1);
    if ivs_has(a, cp) {
        let k = choose|k: int| 0 <= k < a.len() && (#[trigger] a[k]).first <= cp <= a[k].last;
        assert(b[k] == a[k]);
    }
    if s[j].first <= cp <= s[j].last {
        assert(b[j] == s[j]);
    }
    if ivs_has(b, cp) {
        let k = choose|k: int| 0 <= k < b.len() && (#[trigger] b[k]).first <= cp <= b[k].last;
        if k < j { assert(a[k] == b[k]); } else { assert(b[k] == s[j]); }
    }
}

impl CodePointSet {
    pub open spec fn wf(&self) -> bool { ivs_wf(self.ivs@) }
    pub open spec fn has(&self, cp: int) -> bool { ivs_has(self.ivs@, cp) }

    // Assumed contract of add (discharged separately, bounded, by the Kani obligations ck1_add_*): a well-formed set stays
    // well formed and gains exactly the code points of the interval.
    #[verifier::external_body]
    pub fn add(&mut self, new_iv: Interval)
        requires old(self).wf(), iv_wf(new_iv),
        ensures final(self).wf(), forall|cp: int| final(self).has(cp) <==> (old(self).has(cp) || new_iv.first <= cp <= new_iv.last),
    { unimplemented!() }

//@@EXTRACTED:intervals@@

//@@EXTRACTED:add_set@@
}

} // verus!
fn main() {}
