use vstd::prelude::*;
verus! {
pub assume_specification[ std::string::String::with_capacity ](n: usize) -> (r: String)
    ensures r@ == Seq::<char>::empty(),
;

pub open spec fn is_syntax_char(c: char) -> bool {
    c == '\\' || c == '^' || c == '$' || c == '.' || c == '|' || c == '?' || c == '*' || c == '+'
        || c == '(' || c == ')' || c == '[' || c == ']' || c == '{' || c == '}'
}

/// escape as a function on sequences of chars: every syntax character is preceded by a backslash, everything else is copied.
pub open spec fn esc_spec(s: Seq<char>) -> Seq<char>
    decreases s.len(),
{
    if s.len() == 0 {
        Seq::<char>::empty()
    } else {
        let c = s.last();
        if is_syntax_char(c) { esc_spec(s.drop_last()).push('\\').push(c) } else { esc_spec(s.drop_last()).push(c) }
    }
}

//@@EXTRACTED:escape@@
}
fn main() {}
