// Prelude of the Verus units cv_searcher_back / cv_searcher_back_f7 (ReverseSearcher; same declarations as cv_searcher plus
// the assumed contract of find_last_match_before, see j6_find_last_match_before)
// -- text of the forward unit's prelude follows --
// Prelude of the Verus unit cv_searcher (forward std::str::pattern::Searcher of src/api.rs, nested module pattern_impl).
// Re-stated declarations (rule X6, checked textually): RegexSearcher's six fields, SearchStep (std, unstable feature `pattern`:
// the three variants used), Match::start/end, Regex::find_from and the iterator's next() - the latter as an ASSUMED contract:
// find_from(text, start).next() == first_match(regex, text, start), an uninterpreted function, whose result lies in
// start..=len on character boundaries (this is C09's statement; cv_drivers/cv_matches and the Kani f3_* obligations).
// str::len and str::is_char_boundary use vstd's own specifications. `next` is extracted from the `unsafe impl Searcher`
// block and verified as an inherent method.
use vstd::prelude::*;
use vstd::string::*;
verus! {

/// byte length of a str, exactly as vstd specifies `str::len` (the spec clips the length of the byte sequence to usize)
pub open spec fn byte_len(s: &str) -> int { s.spec_bytes().len() as usize as int }
/// vstd's own specification of `str::is_char_boundary`
pub open spec fn is_boundary(s: &str, i: int) -> bool { vstd::utf8::is_char_boundary(s.spec_bytes(), i) }

pub enum SearchStep { Match(usize, usize), Reject(usize, usize), Done }

#[verifier::external_body]
pub struct Match { _p: () }
pub uninterp spec fn m_start(m: &Match) -> int;
pub uninterp spec fn m_end(m: &Match) -> int;
impl Match {
    #[verifier::external_body]
    pub fn start(&self) -> (r: usize) ensures r == m_start(self) { unimplemented!() }
    #[verifier::external_body]
    pub fn end(&self) -> (r: usize) ensures r == m_end(self) { unimplemented!() }
}

#[verifier::external_body]
pub struct Regex { _p: () }
#[verifier::external_body]
pub struct Matches { _p: () }

/// the regex's first match at or after offset `start` of `text` (contract of find_from(..).next(): C09)
pub uninterp spec fn first_match(re: &Regex, text: &str, start: int) -> Option<Match>;
pub uninterp spec fn it_start(it: &Matches) -> int;
pub uninterp spec fn it_re(it: &Matches) -> &Regex;
pub uninterp spec fn it_text(it: &Matches) -> &str;

impl Regex {
    #[verifier::external_body]
    pub fn find_from<'r, 't>(&'r self, text: &'t str, start: usize) -> (r: Matches)
        requires start >= byte_len(text) || is_boundary(text, start as int),
        ensures it_start(&r) == start, it_re(&r) == self, it_text(&r) == text,
    { unimplemented!() }
}
impl Matches {
    #[verifier::external_body]
    pub fn next(&mut self) -> (r: Option<Match>)
        ensures
            r == first_match(it_re(old(self)), it_text(old(self)), it_start(old(self))),
            r.is_some() ==> it_start(old(self)) <= m_start(&r.unwrap()) <= m_end(&r.unwrap()) <= byte_len(it_text(old(self)))
                && is_boundary(it_text(old(self)), m_start(&r.unwrap())) && is_boundary(it_text(old(self)), m_end(&r.unwrap())),
    { unimplemented!() }
}

pub struct RegexSearcher<'r, 't> {
    pub haystack: &'t str,
    pub regex: &'r Regex,
    pub current_pos: usize,
    pub done: bool,
    // For reverse searching
    pub reverse_pos: usize,
    pub reverse_done: bool,
}


/// the last match of the regex's match sequence on `text` that ends at or before offset pos (contract of
/// find_last_match_before; assumed here: its `for m in find_from(..)` loop is outside what Verus accepts; checked, bounded, by the Kani obligation
/// j6_find_last_match_before; since session 4 the loop IS verified, unbounded, by the unit cv_last_match through vstd's iterator
/// protocol: is_last_before(match_seq(regex, haystack, 0), pos, result))
pub uninterp spec fn last_match_before(re: &Regex, text: &str, pos: int) -> Option<Match>;

impl<'r, 't> RegexSearcher<'r, 't> {
    #[verifier::external_body]
    fn find_last_match_before(&self, pos: usize) -> (r: Option<Match>)
        ensures
            r == last_match_before(self.regex, self.haystack, pos as int),
            r.is_some() ==> 0 <= m_start(&r.unwrap()) <= m_end(&r.unwrap()) <= pos
                && is_boundary(self.haystack, m_start(&r.unwrap())) && is_boundary(self.haystack, m_end(&r.unwrap())),
    { unimplemented!() }
}

impl<'r, 't> RegexSearcher<'r, 't> {
//@@EXTRACTED:next_back@@
}

} // verus!
fn main() {}
