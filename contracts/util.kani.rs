// Contracts for src/util.rs. Injected verbatim at the end of the file in a scratch copy of /repo.
#[cfg(kani)]
mod __verif {
    use super::*;

    // @obligation name=a1_utf8_first_byte props=C01,C04,C06 fn=util::utf8_first_byte kind=complete domain="every char" tier=quick
    // utf8_first_byte(c) is the lead byte of the UTF-8 encoding of c, for every Unicode scalar value.
    #[kani::proof]
    fn a1_utf8_first_byte() {
        let c: char = kani::any();
        let mut buf = [0u8; 4];
        let enc = c.encode_utf8(&mut buf);
        let lead = enc.as_bytes()[0];
        assert!(utf8_first_byte(c as u32) == lead);
        kani::cover!(c as u32 >= 0x10000, "4-byte char reached");
    }
}
