// Contracts for src/util.rs. Injected verbatim at the end of the file in a scratch copy of /repo.
#[cfg(kani)]
mod __verif {
    use super::*;

    fn enc(c: char) -> ([u8; 4], usize) {
        let mut buf = [0u8; 4];
        let n = c.encode_utf8(&mut buf).len();
        (buf, n)
    }

    // @obligation name=a1_utf8_first_byte props=C01:t,C04,C06:t fn=util::utf8_first_byte kind=complete domain="every char" min_checks=100
    // utf8_first_byte(c) is the lead byte of the UTF-8 encoding of c, for every Unicode scalar value.
    #[kani::proof]
    fn a1_utf8_first_byte() {
        let c: char = kani::any();
        let (buf, _) = enc(c);
        assert!(utf8_first_byte(c as u32) == buf[0]);
        kani::cover!(c as u32 >= 0x10000, "4-byte char reached");
    }

    // @obligation name=a1_utf8_first_byte_monotone props=C04 fn=util::utf8_first_byte kind=complete domain="every pair of code points (surrogates included)" min_checks=3
    // utf8_first_byte is monotone in the code point (this is what lets add_utf8_first_bytes_to_bitmap fill a lead-byte range).
    #[kani::proof]
    fn a1_utf8_first_byte_monotone() {
        let a: u32 = kani::any();
        let b: u32 = kani::any();
        kani::assume(a <= b && b <= CODE_POINT_MAX);
        assert!(utf8_first_byte(a) <= utf8_first_byte(b));
        kani::cover!(a < 0x80 && b >= 0x10000);
    }

    // @obligation name=a2_utf8_decode_words props=C01,C06 fn=util::utf8_w2,util::utf8_w3,util::utf8_w4 kind=complete domain="every char" min_checks=100
    // utf8_w{2,3,4} applied to the std encoding of c return c; their debug_assert preconditions hold on well-formed UTF-8.
    #[kani::proof]
    fn a2_utf8_decode_words() {
        let c: char = kani::any();
        let (b, n) = enc(c);
        match n {
            1 => assert!(b[0] as u32 == c as u32),
            2 => assert!(utf8_w2(b[0], b[1]) == c as u32),
            3 => assert!(utf8_w3(b[0], b[1], b[2]) == c as u32),
            _ => assert!(utf8_w4(b[0], b[1], b[2], b[3]) == c as u32),
        }
        kani::cover!(n == 2);
        kani::cover!(n == 3);
        kani::cover!(n == 4);
    }

    // @obligation name=a2_is_utf8_continuation props=C01:t,C06 fn=util::is_utf8_continuation kind=complete domain="every byte position of every char" min_checks=50
    // is_utf8_continuation is true exactly on the non-lead bytes of a well-formed encoding.
    #[kani::proof]
    fn a2_is_utf8_continuation() {
        let c: char = kani::any();
        let (b, n) = enc(c);
        let i: usize = kani::any();
        kani::assume(i < n);
        assert!(is_utf8_continuation(b[i]) == (i > 0));
        kani::cover!(i == 3);
    }

    // Ghost model of ByteBitmap::set used to verify the caller modularly: it records whether TARGET was set.
    // (set's own contract - adds exactly the byte, keeps all others - is obligation b1_bitmap_set_contains.)
    static mut TARGET: u8 = 0;
    static mut HIT: bool = false;
    static mut OUTSIDE: bool = false;
    static mut LO: u8 = 0;
    static mut HI: u8 = 0;
    fn ghost_set(_bm: &mut ByteBitmap, val: u8) {
        unsafe {
            if val == TARGET {
                HIT = true;
            }
            if val < LO || val > HI {
                OUTSIDE = true;
            }
        }
    }

    // @obligation name=b5_add_utf8_first_bytes props=C04 fn=util::add_utf8_first_bytes_to_bitmap kind=complete domain="every interval first<=last<=0x10FFFF, every cp in it" min_checks=50 timeout=1200
    // add_utf8_first_bytes_to_bitmap(iv, bm) calls bm.set(lead byte of cp) for every code point cp of iv, and only ever
    // sets bytes between the lead bytes of first and last; it never clears (it only calls set). Verified against the contract of set.
    #[kani::proof]
    #[kani::unwind(130)]
    #[kani::stub(ByteBitmap::set, ghost_set)]
    fn b5_add_utf8_first_bytes() {
        let first: u32 = kani::any();
        let last: u32 = kani::any();
        kani::assume(first <= last && last <= CODE_POINT_MAX);
        let cp: u32 = kani::any();
        kani::assume(first <= cp && cp <= last);
        unsafe {
            TARGET = utf8_first_byte(cp);
            LO = utf8_first_byte(first);
            HI = utf8_first_byte(last);
        }
        let mut bm = ByteBitmap::default();
        add_utf8_first_bytes_to_bitmap(Interval { first, last }, &mut bm);
        unsafe {
            assert!(HIT);
            assert!(!OUTSIDE);
        }
        kani::cover!(first < 0x80 && last >= 0x10000);
    }

    // @obligation name=a8_iat_mat props=C06,C15 fn=util::DebugCheckIndex::iat,util::DebugCheckIndex::mat kind=complete domain="Vec/slice of 3 symbolic elements, every in-range index" features=default;prohibit-unsafe min_checks=50
    // iat/mat return the element at idx (both cfg twins: get_unchecked and checked index) whenever idx < len.
    #[kani::proof]
    fn a8_iat_mat() {
        let a: [u32; 3] = kani::any();
        let mut v = a.to_vec();
        let i: usize = kani::any();
        kani::assume(i < 3);
        assert!(*v.iat(i) == a[i]);
        assert!(*a[..].iat(i) == a[i]);
        let x: u32 = kani::any();
        *v.mat(i) = x;
        assert!(v[i] == x);
        let j: usize = kani::any();
        kani::assume(j < 3 && j != i);
        assert!(v[j] == a[j]);
        kani::cover!(i == 2);
    }

    // @obligation name=ck_equal_range_by props=C12 fn=util::SliceHelp::equal_range_by kind=bounded bound="sorted slices of length 0..=4 with symbolic u8 contents" min_checks=50
    // equal_range_by on a sorted slice returns exactly the index range of the elements equal to the needle.
    #[kani::proof]
    #[kani::unwind(6)]
    fn ck_equal_range_by() {
        let a: [u8; 4] = kani::any();
        let n: usize = kani::any();
        kani::assume(n <= 4);
        let s = &a[..n];
        let mut i = 1;
        while i < n {
            kani::assume(s[i - 1] <= s[i]);
            i += 1;
        }
        let needle: u8 = kani::any();
        let r = s.equal_range_by(|v| v.cmp(&needle));
        assert!(r.start <= r.end && r.end <= n);
        let k: usize = kani::any();
        kani::assume(k < n);
        assert!((r.start <= k && k < r.end) == (s[k] == needle));
        kani::cover!(r.end - r.start == 2);
    }

    // @obligation name=l_to_char_sat props=C01:t,C06:t fn=util::to_char_sat kind=complete domain="every u32" min_checks=10
    // to_char_sat is total: the char itself for scalar values, char::MAX otherwise.
    #[kani::proof]
    fn l_to_char_sat() {
        let c: u32 = kani::any();
        let r = to_char_sat(c);
        match char::from_u32(c) {
            Some(x) => assert!(r == x),
            None => assert!(r == char::MAX),
        }
        kani::cover!(c > 0x10FFFF);
    }
}
