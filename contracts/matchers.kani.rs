// Contracts for src/matchers.rs, plus the ES step specification shared by the interpreter contracts
// (crate::matchers::__verif::spec). Spec functions are written from ECMA-262 22.2.2, independently of the code.
#[cfg(kani)]
pub(crate) mod __verif {
    use super::*;
    use crate::codepointset::{CodePointSet, Interval};
    use crate::cursor::{Backward, Forward};
    use crate::indexing::{AsciiInput, Utf8Input};

    pub(crate) mod spec {
        /// ES 22.2.2.9.? WordCharacters (no i+u): [A-Za-z0-9_]
        pub fn es_is_word_char(cp: u32) -> bool {
            (0x41..=0x5A).contains(&cp) || (0x61..=0x7A).contains(&cp) || (0x30..=0x39).contains(&cp) || cp == 0x5F
        }

        /// WordCharacters with IgnoreCase and UnicodeMode: additionally the code points whose simple case folding is a
        /// basic word character: U+017F (LATIN SMALL LETTER LONG S -> s) and U+212A (KELVIN SIGN -> k).
        pub fn es_is_word_char_unicode_icase(cp: u32) -> bool {
            es_is_word_char(cp) || cp == 0x017F || cp == 0x212A
        }

        /// ES 12.3 LineTerminator
        pub fn es_is_line_terminator(cp: u32) -> bool {
            cp == 0x0A || cp == 0x0D || cp == 0x2028 || cp == 0x2029
        }

        /// A haystack of exactly two characters c1 c2: buf[..n] = utf8(c1) ++ utf8(c2).
        /// Boundaries are numbered k = 0 (before c1), 1 (between), 2 (after c2).
        pub struct Hay {
            pub buf: [u8; 8],
            pub n1: usize,
            pub n: usize,
            pub c: [char; 2],
        }

        impl Hay {
            pub fn any() -> Hay {
                let c1: char = kani::any();
                let c2: char = kani::any();
                Hay::of(c1, c2)
            }
            pub fn any_ascii() -> Hay {
                let c1: char = kani::any();
                let c2: char = kani::any();
                kani::assume((c1 as u32) < 128 && (c2 as u32) < 128);
                Hay::of(c1, c2)
            }
            pub fn of(c1: char, c2: char) -> Hay {
                let mut buf = [0u8; 8];
                let n1 = c1.encode_utf8(&mut buf[..4]).len();
                let n2 = c2.encode_utf8(&mut buf[n1..n1 + 4]).len();
                Hay { buf, n1, n: n1 + n2, c: [c1, c2] }
            }
            pub fn text(&self) -> &str {
                unsafe { core::str::from_utf8_unchecked(&self.buf[..self.n]) }
            }
            pub fn off(&self, k: u8) -> usize {
                match k {
                    0 => 0,
                    1 => self.n1,
                    _ => self.n,
                }
            }
            pub fn any_boundary() -> u8 {
                let k: u8 = kani::any();
                kani::assume(k <= 2);
                k
            }
            /// The character the matcher would consume at boundary k in the given direction, with the boundary after it.
            pub fn next(&self, k: u8, fwd: bool) -> Option<(char, u8)> {
                if fwd {
                    if k < 2 { Some((self.c[k as usize], k + 1)) } else { None }
                } else if k > 0 {
                    Some((self.c[(k - 1) as usize], k - 1))
                } else {
                    None
                }
            }
            pub fn left_of(&self, k: u8) -> Option<char> {
                if k > 0 { Some(self.c[(k - 1) as usize]) } else { None }
            }
            pub fn right_of(&self, k: u8) -> Option<char> {
                if k < 2 { Some(self.c[k as usize]) } else { None }
            }
        }

        /// ES CharacterSetMatcher: consume one character in the direction; succeed iff it satisfies `pred`.
        /// Returns the end *offset*.
        pub fn es_consume<F: Fn(u32) -> bool>(h: &Hay, k: u8, fwd: bool, pred: F) -> Option<usize> {
            match h.next(k, fwd) {
                Some((c, k2)) if pred(c as u32) => Some(h.off(k2)),
                _ => None,
            }
        }

        /// ES \b / \B: IsWordChar(e-1) != IsWordChar(e)
        pub fn es_word_boundary<F: Fn(u32) -> bool>(h: &Hay, k: u8, invert: bool, isw: F) -> bool {
            let a = h.left_of(k).is_some_and(|c| isw(c as u32));
            let b = h.right_of(k).is_some_and(|c| isw(c as u32));
            (a != b) != invert
        }

        /// ES ^ : e == 0 or (multiline and Input[e-1] is a LineTerminator)
        pub fn es_start_of_line(h: &Hay, k: u8, multiline: bool) -> bool {
            match h.left_of(k) {
                None => true,
                Some(c) => multiline && es_is_line_terminator(c as u32),
            }
        }

        /// ES $ : e == InputLength or (multiline and Input[e] is a LineTerminator)
        pub fn es_end_of_line(h: &Hay, k: u8, multiline: bool) -> bool {
            match h.right_of(k) {
                None => true,
                Some(c) => multiline && es_is_line_terminator(c as u32),
            }
        }

        /// ES RepeatMatcher, one decision. `iters` = completed iterations, `entry` = position at which the
        /// last iteration began, `pos` = current position. Enter/Exit with the order in which they are tried.
        #[derive(PartialEq, Eq, Clone, Copy, Debug)]
        pub enum LoopStep {
            Fail,
            EnterOnly,
            ExitOnly,
            EnterThenExit,
            ExitThenEnter,
        }

        pub fn es_loop_step(iters: usize, same_pos_as_entry: bool, min: usize, max: usize, greedy: bool) -> LoopStep {
            // "once the minimum number of repetitions has been satisfied, any more expansions of Atom that match
            //  the empty character sequence are not considered for further repetitions"
            if iters > min && same_pos_as_entry {
                return LoopStep::Fail;
            }
            let can_enter = iters < max;
            let can_exit = iters >= min;
            match (can_enter, can_exit) {
                (false, false) => LoopStep::Fail,
                (true, false) => LoopStep::EnterOnly,
                (false, true) => LoopStep::ExitOnly,
                (true, true) => if greedy { LoopStep::EnterThenExit } else { LoopStep::ExitThenEnter },
            }
        }

        /// Set-membership view of a CodePointSet given as up to two intervals.
        pub fn in_ivs(ivs: &[(u32, u32)], cp: u32) -> bool {
            let mut r = false;
            let mut i = 0;
            while i < ivs.len() {
                if ivs[i].0 <= cp && cp <= ivs[i].1 {
                    r = true;
                }
                i += 1;
            }
            r
        }
    }

    use spec::*;

    /// A well-formed CodePointSet with `n` (0..=2) symbolic intervals, returned with its interval list.
    pub(crate) fn any_cps(n: usize) -> (CodePointSet, [(u32, u32); 2], usize) {
        let a: u32 = kani::any();
        let b: u32 = kani::any();
        let c: u32 = kani::any();
        let d: u32 = kani::any();
        kani::assume(a <= b && b < c && c - b >= 2 && c <= d && d <= 0x10FFFF);
        let mut v = Vec::with_capacity(2);
        if n >= 1 {
            v.push(Interval { first: a, last: b });
        }
        if n >= 2 {
            v.push(Interval { first: c, last: d });
        }
        (CodePointSet::from_sorted_disjoint_intervals(v), [(a, b), (c, d)], n)
    }

    // @obligation name=e8_word_char_line_terminator props=C01,C10:t,C13 fn=matchers::CharProperties::is_word_char,matchers::CharProperties::is_line_terminator kind=complete domain="every char; every byte" min_checks=3
    // is_word_char = [A-Za-z0-9_] and is_line_terminator = {LF,CR,LS,PS} for the UTF-8 and ASCII property tables;
    // the ASCII versions agree with the UTF-8 ones on every ASCII byte.
    #[kani::proof]
    fn e8_word_char_line_terminator() {
        let c: char = kani::any();
        assert!(UTF8CharProperties::is_word_char(c) == es_is_word_char(c as u32));
        assert!(UTF8CharProperties::is_line_terminator(c) == es_is_line_terminator(c as u32));
        let b: u8 = kani::any();
        assert!(ASCIICharProperties::is_word_char(b) == es_is_word_char(b as u32));
        assert!(ASCIICharProperties::is_line_terminator(b) == es_is_line_terminator(b as u32));
        kani::cover!(c as u32 == 0x2028);
    }

    // @obligation name=d5_word_char_unicode_icase props=C01,C10 fn=matchers::CharProperties::is_word_char_unicode_icase,unicodetables::nonascii_folds_to_ascii_word_char kind=complete domain="every char" min_checks=3
    // is_word_char_unicode_icase(c) <=> c is a basic word char or its simple case folding is one (ES: U+017F, U+212A);
    // tied to the fold table: it equals is_word_char(c) || is_word_char(fold(c)).
    #[kani::proof]
    #[kani::unwind(16)]
    fn d5_word_char_unicode_icase() {
        let c: char = kani::any();
        let r = UTF8CharProperties::is_word_char_unicode_icase(c);
        assert!(r == es_is_word_char_unicode_icase(c as u32));
        let f = crate::unicode::fold_code_point(c as u32, true);
        assert!(r == (es_is_word_char(c as u32) || es_is_word_char(f)));
        kani::cover!(c as u32 == 0x212A);
    }

    // @obligation name=d4_ascii_fold_agrees props=C13,C10 fn=matchers::ASCIICharProperties::fold,matchers::UTF8CharProperties::fold kind=complete domain="every ASCII byte, both modes" min_checks=3
    // On ASCII, ASCIICharProperties::fold(b, u) is the same code point as UTF8CharProperties::fold(b as char, u),
    // for unicode folding and for legacy upper-casing.
    #[kani::proof]
    #[kani::unwind(16)]
    fn d4_ascii_fold_agrees() {
        let b: u8 = kani::any();
        kani::assume(b < 128);
        let u: bool = kani::any();
        assert!(ASCIICharProperties::fold(b, u) as u32 == UTF8CharProperties::fold(b as char, u) as u32);
        assert!(ASCIICharProperties::fold(b, u) as u32 == crate::unicode::fold_code_point(b as u32, u));
        kani::cover!(b == b'k' && u);
    }

    // @obligation name=ck2_bracket_membership props=C01,C12 fn=matchers::CharProperties::bracket,codepointset::CodePointSet::contains,codepointset::interval_contains kind=bounded bound="well-formed sets of 0..=2 symbolic intervals, every char" min_checks=30
    // CharProperties::bracket(bc, c) == (c in the set) XOR invert, for sets of 0, 1 and 2 intervals.
    #[kani::proof]
    #[kani::unwind(5)]
    fn ck2_bracket_membership() {
        let n: usize = kani::any();
        kani::assume(n <= 2);
        let (cps, ivs, n) = any_cps(n);
        let invert: bool = kani::any();
        let bc = BracketContents { invert, cps };
        let c: char = kani::any();
        assert!(UTF8CharProperties::bracket(&bc, c) == (in_ivs(&ivs[..n], c as u32) != invert));
        let b: u8 = kani::any();
        assert!(ASCIICharProperties::bracket(&bc, b) == (in_ivs(&ivs[..n], b as u32) != invert));
        kani::cover!(n == 2 && in_ivs(&ivs[..n], c as u32));
        kani::cover!(n == 0);
    }

    // Uninterpreted canonicalisation: an arbitrary but deterministic function given by two symbolic points.
    // Verifying callers of fold_code_point against it proves them for *every* fold table (modular step; the
    // table itself is the subject of the unicode.rs contracts).
    pub(crate) static mut FK: [u32; 2] = [0; 2];
    pub(crate) static mut FV: [u32; 2] = [0; 2];
    pub(crate) fn uf_fold(cu: u32, _unicode: bool) -> u32 {
        unsafe {
            if cu == FK[0] {
                FV[0]
            } else if cu == FK[1] {
                FV[1]
            } else {
                cu
            }
        }
    }
    pub(crate) fn uf_fold_init(k0: u32, k1: u32) {
        let v0: u32 = kani::any();
        let v1: u32 = kani::any();
        kani::assume(k0 != k1 || v0 == v1);
        unsafe {
            FK = [k0, k1];
            FV = [v0, v1];
        }
    }

    // @obligation name=d7_fold_equals props=C10,C13:t fn=indexing::InputIndexer::fold_equals,matchers::UTF8CharProperties::fold kind=complete domain="every pair of chars, both modes, every canonicalisation function (uninterpreted)" min_checks=10
    // fold_equals(c1,c2) <=> canon(c1) == canon(c2), where canon = CharProps::fold over fold_code_point (taken as an
    // uninterpreted function, values that are not scalar values leave the char unchanged); reflexive and symmetric.
    #[kani::proof]
    #[kani::stub(crate::unicode::fold_code_point, uf_fold)]
    fn d7_fold_equals() {
        let c1: char = kani::any();
        let c2: char = kani::any();
        let u: bool = kani::any();
        uf_fold_init(c1 as u32, c2 as u32);
        let input = Utf8Input::new("", u);
        let r = input.fold_equals(c1, c2);
        let canon = |c: char| char::from_u32(uf_fold(c as u32, u)).unwrap_or(c);
        assert!(r == (canon(c1) == canon(c2)));
        assert!(r == input.fold_equals(c2, c1));
        assert!(input.fold_equals(c1, c1));
        let a = AsciiInput::new("", u);
        let b1: u8 = kani::any();
        let b2: u8 = kani::any();
        assert!(a.fold_equals(b1, b2) == (ASCIICharProperties::fold(b1, u) == ASCIICharProperties::fold(b2, u)));
        kani::cover!(r && c1 != c2);
        kani::cover!(!r);
    }

    // @obligation name=d7_backref_icase props=C10:t,C01:t fn=matchers::backref_icase kind=bounded bound="haystack = two symbolic chars (any code points); referenced range = the first char; match attempted at every boundary, both directions, both modes; canonicalisation uninterpreted" min_checks=100 w=2 timeout=1200
    // backref_icase compares the referenced text and the text at pos character by character under fold_equals, consumes
    // exactly as many characters as the reference has, and fails when the text ends early.
    #[kani::proof]
    #[kani::unwind(4)]
    #[kani::stub(crate::unicode::fold_code_point, uf_fold)]
    fn d7_backref_icase() {
        let h = Hay::any();
        let u: bool = kani::any();
        uf_fold_init(h.c[0] as u32, h.c[1] as u32);
        let input = Utf8Input::new(h.text(), u);
        let range = input.left_end()..(input.left_end() + h.n1);
        let k = Hay::any_boundary();
        let fwd: bool = kani::any();
        let mut p = input.left_end() + h.off(k);
        let r = if fwd {
            backref_icase(&input, Forward::new(), range, &mut p)
        } else {
            backref_icase(&input, Backward::new(), range, &mut p)
        };
        let canon = |c: u32| char::from_u32(uf_fold(c, u)).map(|x| x as u32).unwrap_or(c);
        let exp = es_consume(&h, k, fwd, |x| canon(x) == canon(h.c[0] as u32));
        assert!(r == exp.is_some());
        if let Some(e) = exp {
            assert!(input.pos_to_offset(p) == e);
        }
        kani::cover!(r && k == 1 && h.c[0] != h.c[1]);
        kani::cover!(!r && k == 1);
    }

    // @obligation name=d7_backref_icase_ascii props=C10,C01:t,C13:t fn=matchers::backref_icase kind=bounded bound="haystack = two symbolic ASCII chars; referenced range = the first char; every boundary, both directions, both modes; Utf8Input and AsciiInput; canonicalisation uninterpreted" min_checks=100 w=2 timeout=600
    // Same contract as d7_backref_icase on ASCII text, for the UTF-8 and the ASCII input (which must agree).
    #[kani::proof]
    #[kani::unwind(4)]
    #[kani::stub(crate::unicode::fold_code_point, uf_fold)]
    fn d7_backref_icase_ascii() {
        let h = Hay::any_ascii();
        let u: bool = kani::any();
        uf_fold_init(h.c[0] as u32, h.c[1] as u32);
        let input = Utf8Input::new(h.text(), u);
        let range = input.left_end()..(input.left_end() + h.n1);
        let k = Hay::any_boundary();
        let fwd: bool = kani::any();
        let mut p = input.left_end() + h.off(k);
        let r = if fwd {
            backref_icase(&input, Forward::new(), range, &mut p)
        } else {
            backref_icase(&input, Backward::new(), range, &mut p)
        };
        let canon = |c: u32| char::from_u32(uf_fold(c, u)).map(|x| x as u32).unwrap_or(c);
        let exp = es_consume(&h, k, fwd, |x| canon(x) == canon(h.c[0] as u32));
        assert!(r == exp.is_some());
        if let Some(e) = exp {
            assert!(input.pos_to_offset(p) == e);
        }
        // ASCII input: same outcome with the ASCII fold (upper/lower-casing)
        let a = AsciiInput::new(h.text(), u);
        let ra = a.left_end()..(a.left_end() + 1);
        let mut q = a.left_end() + h.off(k);
        let r2 = if fwd {
            backref_icase(&a, Forward::new(), ra, &mut q)
        } else {
            backref_icase(&a, Backward::new(), ra, &mut q)
        };
        let exp2 = es_consume(&h, k, fwd, |x| {
            ASCIICharProperties::fold(x as u8, u) == ASCIICharProperties::fold(h.c[0] as u8, u)
        });
        assert!(r2 == exp2.is_some());
        if let Some(e) = exp2 {
            assert!(a.pos_to_offset(q) == e);
        }
        kani::cover!(r && k == 1 && h.c[0] != h.c[1]);
        kani::cover!(!r && k == 1);
    }
}
