// Contracts for src/classicalbacktrack.rs: loop decision (E1), per-instruction step contracts (E2),
// undo discipline (E3), backtrack records (E4), single-char loops (E5), lookaround (E6), match construction (E9),
// search drivers (F). Spec functions: crate::matchers::__verif::spec (written from ECMA-262, not from this code).
// GENERATED PARTS: the e2_bt_byteseq* harnesses are emitted by contracts/gen/gen.py (static text, committed).
#[cfg(kani)]
pub(crate) mod __verif {
    use super::*;
    use crate::api::Flags;
    use crate::insn::StartPredicate;
    use crate::matchers::__verif::spec::*;
    use crate::types::BracketContents;

    /// Build a program. The value is leaked on purpose: dropping harness-built regexes at the end of a proof only
    /// exercises CBMC's free() model (and trips it on zero-length boxed slices), it says nothing about the code under test.
    pub(crate) fn mk(insns: Vec<Insn>, loops: u32, groups: u32, brackets: Vec<BracketContents>) -> &'static mut CompiledRegex {
        Box::leak(Box::new(mk_owned(insns, loops, groups, brackets)))
    }

    /// read access to the executor's private input field for contract stubs in other modules
    pub(crate) fn input_of<'r, I: InputIndexer>(e: &BacktrackExecutor<'r, I>) -> I {
        e.input
    }

    pub(crate) fn mk_owned(insns: Vec<Insn>, loops: u32, groups: u32, brackets: Vec<BracketContents>) -> CompiledRegex {
        CompiledRegex {
            insns,
            brackets,
            start_pred: StartPredicate::Arbitrary,
            loops,
            groups,
            group_names: Vec::new().into_boxed_slice(),
            flags: Flags::default(),
        }
    }

    type Pos<'a> = <Utf8Input<'a> as InputIndexer>::Position;

    fn any_opt_pos<'a>(input: &Utf8Input<'a>, n: usize) -> Option<Pos<'a>> {
        if kani::any() {
            let k: usize = kani::any();
            kani::assume(k <= n);
            Some(input.left_end() + k)
        } else {
            None
        }
    }

    // ---- stubs that cut arms a micro-program cannot reach (reaching one fails the harness: sound) ----
    fn no_lookaround<'a, Input: InputIndexer, Dir: Direction>(
        _this: &mut MatchAttempter<'a, Input>, _input: &Input, _ip: IP, _pos: Input::Position,
        _start_group: CaptureGroupID, _end_group: CaptureGroupID, _negate: bool,
    ) -> bool where 'a: 'a {
        panic!("lookaround unreachable in this program")
    }
    fn no_scm_loop<'a, Input: InputIndexer, Dir: Direction>(
        _this: &mut MatchAttempter<'a, Input>, _input: &Input, _dir: Dir, _pos: &mut Input::Position,
        _min: usize, _max: usize, _ip: IP, _greedy: bool,
    ) -> Option<IP> where 'a: 'a {
        panic!("Loop1CharBody unreachable in this program")
    }
    fn no_run_loop<'a, Input: InputIndexer>(
        _this: &mut MatchAttempter<'a, Input>, _lf: &'a LoopFields, _pos: Input::Position, _ip: IP,
    ) -> Option<IP> where 'a: 'a {
        panic!("EnterLoop/LoopAgain unreachable in this program")
    }

    /// Contract of try_backtrack for the record kinds a one-instruction program can push: data records are applied
    /// and popped; a SetPosition choice point is popped and resumed. Used as the stub of try_backtrack in the arm-level
    /// E2/E3 obligations; that the real try_backtrack satisfies it is obligation e4_bt_records_data (assume-guarantee
    /// between E3 and E4). The resume target is *asserted* to be the value the harness expects (EXP_IP/EXP_OFF) and
    /// the constant is used afterwards, so that the dispatch loop never sees a heap-read instruction pointer
    /// (CBMC would otherwise explore all 40 instruction arms); EXP_IP == usize::MAX means "no choice point expected".
    static mut EXP_IP: usize = usize::MAX;
    static mut EXP_OFF: usize = 0;
    static mut RESUMED: u32 = 0;
    fn spec_backtrack<'a, Input: InputIndexer, Dir: Direction>(
        this: &mut MatchAttempter<'a, Input>, input: &Input, ip: &mut IP, pos: &mut Input::Position, _dir: Dir,
    ) -> bool where 'a: 'a {
        loop {
            match this.bts.last() {
                None | Some(BacktrackInsn::Exhausted) => return false,
                Some(&BacktrackInsn::SetPosition { ip: i, pos: p }) => {
                    unsafe {
                        assert!(EXP_IP != usize::MAX, "no choice point expected in this program");
                        assert!(i == EXP_IP, "choice point resumes at the expected instruction");
                        assert!(input.pos_to_offset(p) == EXP_OFF, "choice point resumes at the expected position");
                        *ip = EXP_IP;
                        *pos = input.left_end() + EXP_OFF;
                        RESUMED += 1;
                    }
                    this.bts.pop();
                    return true;
                }
                Some(&BacktrackInsn::SetLoopData { id, data }) => {
                    this.s.loops[id as usize] = data;
                    this.bts.pop();
                }
                Some(&BacktrackInsn::SetCaptureGroup { id, data }) => {
                    this.s.groups[id as usize] = data;
                    this.bts.pop();
                }
                _ => panic!("this program pushes no loop choice records"),
            }
        }
    }

    /// Run program `re` from byte offset `off` of `text` with the backtracker; returns the end offset.
    fn exec_utf8<Dir: Direction>(re: &CompiledRegex, text: &str, unicode: bool, off: usize) -> Option<usize> {
        let input = Utf8Input::new(text, unicode);
        let mut m = MatchAttempter::<Utf8Input>::new(re, input.left_end());
        // pre-size the backtrack stack: a push that reallocates inside the attempt trips CBMC's realloc/free model
        m.bts.reserve(7);
        let r = m.try_at_pos(input, 0, input.left_end() + off, Dir::new());
        // interface invariant of try_at_pos: the backtrack stack is back to its backstop
        assert!(m.bts.len() == 1);
        r.map(|p| input.pos_to_offset(p))
    }
    fn exec(re: &CompiledRegex, text: &str, off: usize, fwd: bool) -> Option<usize> {
        if fwd { exec_utf8::<Forward>(re, text, false, off) } else { exec_utf8::<Backward>(re, text, false, off) }
    }
    fn exec_ascii(re: &CompiledRegex, text: &str, off: usize, fwd: bool) -> Option<usize> {
        let input = AsciiInput::new(text, false);
        let mut m = MatchAttempter::<AsciiInput>::new(re, input.left_end());
        let r = if fwd {
            m.try_at_pos(input, 0, input.left_end() + off, Forward::new())
        } else {
            m.try_at_pos(input, 0, input.left_end() + off, Backward::new())
        };
        r.map(|p| input.pos_to_offset(p))
    }

    // =================================== E1: loop decision ===================================

    // @obligation name=e1_bt_run_loop_decision props=C01,C02,C05 fn=classicalbacktrack::MatchAttempter::run_loop kind=complete domain="every iters<usize::MAX, every min<=max, greedy, entry and pos anywhere in a 2-byte haystack" min_checks=300
    // run_loop returns the ES RepeatMatcher decision: None iff the step fails (no viable arm, or an empty iteration
    // past min); the exit ip iff exit is the first viable arm; ip+1 iff entering is, and then iters' = iters+1 and
    // entry' = pos; on exit iters is unchanged.
    #[kani::proof]
    #[kani::unwind(3)]
    fn e1_bt_run_loop_decision() {
        let min: usize = kani::any();
        let max: usize = kani::any();
        kani::assume(min <= max);
        let greedy: bool = kani::any();
        let re = mk(
            vec![
                Insn::EnterLoop(LoopFields { loop_id: 0, min_iters: min, max_iters: max, greedy, exit: 3 }),
                Insn::JustFail,
                Insn::LoopAgain { begin: 0 },
                Insn::Goal,
            ],
            1, 0, vec![],
        );
        let input = Utf8Input::new("ab", false);
        let mut m = MatchAttempter::<Utf8Input>::new(&re, input.left_end());
        let iters: usize = kani::any();
        let e: usize = kani::any();
        let p: usize = kani::any();
        kani::assume(e <= 2 && p <= 2);
        kani::assume(iters < usize::MAX);
        m.s.loops[0] = LoopData { iters, entry: input.left_end() + e };
        let fields = match &re.insns[0] { Insn::EnterLoop(f) => f, _ => unreachable!() };
        let r = m.run_loop(fields, input.left_end() + p, 0);
        match es_loop_step(iters, e == p, min, max, greedy) {
            LoopStep::Fail => assert!(r.is_none()),
            LoopStep::ExitOnly | LoopStep::ExitThenEnter => {
                assert!(r == Some(3));
                assert!(m.s.loops[0].iters == iters);
            }
            LoopStep::EnterOnly | LoopStep::EnterThenExit => {
                assert!(r == Some(1));
                assert!(m.s.loops[0].iters == iters + 1);
                assert!(m.s.loops[0].entry == input.left_end() + p);
            }
        }
        kani::cover!(r.is_none() && iters > min && iters < max);
        kani::cover!(r == Some(1) && greedy && iters >= min);
        kani::cover!(r == Some(3) && !greedy && iters < max);
    }

    fn fresh_stack<'a>(m: &mut MatchAttempter<'a, Utf8Input<'a>>) {
        // a stack that will not reallocate (keeps CBMC's view of the backstop record constant)
        let mut v = Vec::with_capacity(8);
        v.push(BacktrackInsn::Exhausted);
        m.bts = v;
    }

    /// Shared body of the E3b obligations; `want` selects the ES decision the harness covers.
    fn e3b_body(want: LoopStep) {
        let min: usize = kani::any();
        let max: usize = kani::any();
        kani::assume(min <= max);
        let greedy: bool = kani::any();
        let re = mk(
            vec![
                Insn::EnterLoop(LoopFields { loop_id: 0, min_iters: min, max_iters: max, greedy, exit: 3 }),
                Insn::JustFail,
                Insn::LoopAgain { begin: 0 },
                Insn::Goal,
            ],
            1, 0, vec![],
        );
        let input = Utf8Input::new("ab", false);
        let mut m = MatchAttempter::<Utf8Input>::new(&re, input.left_end());
        let iters: usize = kani::any();
        let e: usize = kani::any();
        let p: usize = kani::any();
        kani::assume(e <= 2 && p <= 2);
        kani::assume(iters < usize::MAX);
        let step = es_loop_step(iters, e == p, min, max, greedy);
        kani::assume(step == want);
        let old = LoopData { iters, entry: input.left_end() + e };
        m.s.loops[0] = old;
        let fields = match &re.insns[0] { Insn::EnterLoop(f) => f, _ => unreachable!() };
        let pos0 = input.left_end() + p;
        let _r = m.run_loop(fields, pos0, 0);
        let mut ip: IP = 77;
        let mut pos = input.left_end();
        let resumed = m.try_backtrack(&input, &mut ip, &mut pos, Forward::new());
        match want {
            LoopStep::Fail | LoopStep::ExitOnly | LoopStep::EnterOnly => {
                assert!(!resumed, "no alternative arm exists");
                assert!(m.s.loops[0].iters == old.iters && m.s.loops[0].entry == old.entry, "loop data restored");
            }
            LoopStep::EnterThenExit => {
                assert!(resumed && ip == 3 && pos == pos0, "greedy: the alternative is the exit arm at the same position");
                assert!(m.s.loops[0].iters == old.iters && m.s.loops[0].entry == old.entry, "loop data restored");
            }
            LoopStep::ExitThenEnter => {
                assert!(resumed && ip == 1 && pos == pos0, "lazy: the alternative is one more iteration from the same position");
                assert!(m.s.loops[0].iters == old.iters + 1 && m.s.loops[0].entry == pos0);
                // ... and giving that up too restores the loop data
                assert!(!m.try_backtrack(&input, &mut ip, &mut pos, Forward::new()));
                assert!(m.s.loops[0].iters == old.iters && m.s.loops[0].entry == old.entry, "loop data restored");
            }
        }
        assert!(m.bts.len() == 1);
        kani::cover!(true);
    }

    // @obligation name=e3b_bt_run_loop_undo_fail props=C01:t,C02:t,C05:t fn=classicalbacktrack::MatchAttempter::run_loop,classicalbacktrack::MatchAttempter::try_backtrack,classicalbacktrack::MatchAttempter::prepare_to_enter_loop kind=complete domain="every iters<usize::MAX, min<=max, greedy, entry/pos in a 2-byte haystack for which ES prescribes this decision" min_checks=300 w=4 timeout=2400
    // Undo discipline of run_loop when no arm is viable (or an empty iteration past min): nothing is pushed and nothing changes.
    #[kani::proof]
    #[kani::unwind(4)]
    fn e3b_bt_run_loop_undo_fail() {
        e3b_body(LoopStep::Fail);
    }

    // @obligation name=e3b_bt_run_loop_undo_exit_only props=C01:t,C02:t,C05:t fn=classicalbacktrack::MatchAttempter::run_loop,classicalbacktrack::MatchAttempter::try_backtrack,classicalbacktrack::MatchAttempter::prepare_to_enter_loop kind=complete domain="every iters<usize::MAX, min<=max, greedy, entry/pos in a 2-byte haystack for which ES prescribes this decision" min_checks=300 w=4 timeout=2400
    // Undo discipline of run_loop when only the exit arm is viable: nothing is pushed, the loop data is unchanged.
    #[kani::proof]
    #[kani::unwind(4)]
    fn e3b_bt_run_loop_undo_exit_only() {
        e3b_body(LoopStep::ExitOnly);
    }

    // @obligation name=e3b_bt_run_loop_undo_enter_only props=C01:t,C02:t,C05:t fn=classicalbacktrack::MatchAttempter::run_loop,classicalbacktrack::MatchAttempter::try_backtrack,classicalbacktrack::MatchAttempter::prepare_to_enter_loop kind=complete domain="every iters<usize::MAX, min<=max, greedy, entry/pos in a 2-byte haystack for which ES prescribes this decision" min_checks=300 w=4 timeout=2400
    // Undo discipline of run_loop when only entering is viable: one undo record; replaying it restores the loop data and finds no alternative.
    #[kani::proof]
    #[kani::unwind(4)]
    fn e3b_bt_run_loop_undo_enter_only() {
        e3b_body(LoopStep::EnterOnly);
    }

    // @obligation name=e3b_bt_run_loop_undo_greedy props=C01:t,C02,C05 fn=classicalbacktrack::MatchAttempter::run_loop,classicalbacktrack::MatchAttempter::try_backtrack kind=complete domain="every iters, min<=iters<max, greedy, entry/pos in a 2-byte haystack" min_checks=300 w=3 timeout=1200
    // Greedy loop with both arms viable: backtracking resumes at the exit ip at the same position with the loop data restored.
    #[kani::proof]
    #[kani::unwind(4)]
    fn e3b_bt_run_loop_undo_greedy() {
        e3b_body(LoopStep::EnterThenExit);
    }

    // @obligation name=e3b_bt_run_loop_undo_lazy props= fn=classicalbacktrack::MatchAttempter::run_loop,classicalbacktrack::MatchAttempter::try_backtrack kind=complete domain="every iters, min<=iters<max, lazy, entry/pos in a 2-byte haystack" min_checks=300 w=5 timeout=3000
    // Lazy loop with both arms viable: backtracking enters the loop (iters+1, entry=pos) from the same position; giving
    // that up as well restores the loop data (entry included, #131).
    #[kani::proof]
    #[kani::unwind(4)]
    fn e3b_bt_run_loop_undo_lazy() {
        e3b_body(LoopStep::ExitThenEnter);
    }

    // =================================== E2: step contracts ===================================

    // @obligation name=e2_bt_char props=C01,C02,C06 fn=classicalbacktrack::MatchAttempter::try_at_pos,scm::Char::matches,cursor::next kind=bounded bound="2-char haystack (every pair of chars), every boundary, both directions; operand: every u32" min_checks=1000 w=2 timeout=900
    // [Char(c), Goal]: consumes exactly one character in the direction of travel and succeeds iff it is c.
    #[kani::proof]
    #[kani::unwind(4)]
    #[kani::stub(MatchAttempter::run_lookaround, no_lookaround)]
    #[kani::stub(MatchAttempter::run_scm_loop, no_scm_loop)]
    #[kani::stub(MatchAttempter::run_loop, no_run_loop)]
    fn e2_bt_char() {
        let h = Hay::any();
        let k = Hay::any_boundary();
        let fwd: bool = kani::any();
        let c: u32 = kani::any();
        let re = mk(vec![Insn::Char(c), Insn::Goal], 0, 0, vec![]);
        let got = exec(&re, h.text(), h.off(k), fwd);
        assert!(got == es_consume(&h, k, fwd, |x| x == c));
        kani::cover!(got.is_some() && !fwd && h.n1 == 3);
        kani::cover!(got.is_none() && k == 1);
    }

    // @obligation name=e2_bt_charset props=C01,C02,C10:t fn=classicalbacktrack::MatchAttempter::try_at_pos,scm::CharSet::matches kind=bounded bound="2-char haystack (every pair of chars), every boundary, both directions; operand: every [u32;4]" min_checks=1000 w=2 timeout=900
    // [CharSet(set), Goal]: consumes one character and succeeds iff it is one of the four entries.
    #[kani::proof]
    #[kani::unwind(6)]
    #[kani::stub(MatchAttempter::run_lookaround, no_lookaround)]
    #[kani::stub(MatchAttempter::run_scm_loop, no_scm_loop)]
    #[kani::stub(MatchAttempter::run_loop, no_run_loop)]
    fn e2_bt_charset() {
        let h = Hay::any();
        let k = Hay::any_boundary();
        let fwd: bool = kani::any();
        let set: [u32; 4] = kani::any();
        let re = mk(vec![Insn::CharSet(set), Insn::Goal], 0, 0, vec![]);
        let got = exec(&re, h.text(), h.off(k), fwd);
        assert!(got == es_consume(&h, k, fwd, |x| x == set[0] || x == set[1] || x == set[2] || x == set[3]));
        kani::cover!(got.is_some());
        kani::cover!(got.is_none() && k == 1);
    }

    // @obligation name=e2_bt_bracket props=C01,C02,C12 fn=classicalbacktrack::MatchAttempter::try_at_pos,scm::Bracket::matches,matchers::CharProperties::bracket kind=bounded bound="2-char haystack (every pair of chars), every boundary, both directions; operand: well-formed set of 2 symbolic intervals, invert symbolic" min_checks=1000 w=2 timeout=900
    // [Bracket(0), Goal]: consumes one character and succeeds iff (char in set) != invert.
    #[kani::proof]
    #[kani::unwind(5)]
    #[kani::stub(MatchAttempter::run_lookaround, no_lookaround)]
    #[kani::stub(MatchAttempter::run_scm_loop, no_scm_loop)]
    #[kani::stub(MatchAttempter::run_loop, no_run_loop)]
    fn e2_bt_bracket() {
        let h = Hay::any();
        let k = Hay::any_boundary();
        let fwd: bool = kani::any();
        let (cps, ivs, n) = crate::matchers::__verif::any_cps(2);
        let invert: bool = kani::any();
        let re = mk(vec![Insn::Bracket(0), Insn::Goal], 0, 0, vec![BracketContents { invert, cps }]);
        let got = exec(&re, h.text(), h.off(k), fwd);
        assert!(got == es_consume(&h, k, fwd, |x| in_ivs(&ivs[..n], x) != invert));
        kani::cover!(got.is_some() && invert);
        kani::cover!(got.is_some() && !invert);
    }

    // @obligation name=e2_bt_ascii_bracket props=C01,C02,C13:t fn=classicalbacktrack::MatchAttempter::try_at_pos,scm::MatchByteSet::matches,cursor::next_byte kind=bounded bound="2-char haystack (every pair of chars), every boundary, both directions; operand: every AsciiBitmap" min_checks=1000 w=2 timeout=900
    // [AsciiBracket(bm), Goal]: consumes one character and succeeds iff it is ASCII and its bit is set (a non-ASCII
    // character never matches and the position never ends inside a sequence on success).
    #[kani::proof]
    #[kani::unwind(4)]
    #[kani::stub(MatchAttempter::run_lookaround, no_lookaround)]
    #[kani::stub(MatchAttempter::run_scm_loop, no_scm_loop)]
    #[kani::stub(MatchAttempter::run_loop, no_run_loop)]
    fn e2_bt_ascii_bracket() {
        let h = Hay::any();
        let k = Hay::any_boundary();
        let fwd: bool = kani::any();
        let bits: [u8; 16] = kani::any();
        let re = mk(vec![Insn::AsciiBracket(crate::bytesearch::AsciiBitmap(bits)), Insn::Goal], 0, 0, vec![]);
        let got = exec(&re, h.text(), h.off(k), fwd);
        assert!(got == es_consume(&h, k, fwd, |x| x < 128 && (bits[(x >> 3) as usize] >> (x & 7)) & 1 == 1));
        kani::cover!(got.is_some() && !fwd);
        kani::cover!(got.is_none() && k == 1);
    }

    fn byteset_body(n: usize) {
        let h = Hay::any();
        let k = Hay::any_boundary();
        let fwd: bool = kani::any();
        let s: [u8; 4] = kani::any();
        kani::assume(s[0] < 128 && s[1] < 128 && s[2] < 128 && s[3] < 128);
        let insn = match n {
            2 => Insn::ByteSet2(crate::bytesearch::ByteArraySet([s[0], s[1]])),
            3 => Insn::ByteSet3(crate::bytesearch::ByteArraySet([s[0], s[1], s[2]])),
            _ => Insn::ByteSet4(crate::bytesearch::ByteArraySet(s)),
        };
        let re = mk(vec![insn, Insn::Goal], 0, 0, vec![]);
        let got = exec(&re, h.text(), h.off(k), fwd);
        let exp = es_consume(&h, k, fwd, |x| {
            x == s[0] as u32 || x == s[1] as u32 || (n >= 3 && x == s[2] as u32) || (n >= 4 && x == s[3] as u32)
        });
        assert!(got == exp);
        kani::cover!(got.is_some());
        kani::cover!(got.is_none() && k == 1);
    }

    // @obligation name=e2_bt_byteset2 props=C01,C02 fn=classicalbacktrack::MatchAttempter::try_at_pos,scm::MatchByteArraySet::matches kind=bounded bound="2-char haystack (every pair of chars), every boundary, both directions; operand: ASCII byte set of size 2 (precondition established by literal.rs: ByteSet only from all-ASCII CharSet)" min_checks=1000 w=2 timeout=900
    // [ByteSet2(set), Goal] (members < 128): consumes one character and succeeds iff it is a member.
    #[kani::proof]
    #[kani::unwind(4)]
    #[kani::stub(MatchAttempter::run_lookaround, no_lookaround)]
    #[kani::stub(MatchAttempter::run_scm_loop, no_scm_loop)]
    #[kani::stub(MatchAttempter::run_loop, no_run_loop)]
    fn e2_bt_byteset2() {
        byteset_body(2);
    }

    // @obligation name=e2_bt_byteset3 props=C01:t,C02:t fn=classicalbacktrack::MatchAttempter::try_at_pos,scm::MatchByteArraySet::matches kind=bounded bound="2-char haystack (every pair of chars), every boundary, both directions; operand: ASCII byte set of size 3 (precondition established by literal.rs: ByteSet only from all-ASCII CharSet)" min_checks=1000 w=2 timeout=900
    // [ByteSet3(set), Goal] (members < 128): consumes one character and succeeds iff it is a member.
    #[kani::proof]
    #[kani::unwind(4)]
    #[kani::stub(MatchAttempter::run_lookaround, no_lookaround)]
    #[kani::stub(MatchAttempter::run_scm_loop, no_scm_loop)]
    #[kani::stub(MatchAttempter::run_loop, no_run_loop)]
    fn e2_bt_byteset3() {
        byteset_body(3);
    }

    // @obligation name=e2_bt_byteset4 props=C01,C02 fn=classicalbacktrack::MatchAttempter::try_at_pos,scm::MatchByteArraySet::matches kind=bounded bound="2-char haystack (every pair of chars), every boundary, both directions; operand: ASCII byte set of size 4 (precondition established by literal.rs: ByteSet only from all-ASCII CharSet)" min_checks=1000 w=2 timeout=900
    // [ByteSet4(set), Goal] (members < 128): consumes one character and succeeds iff it is a member.
    #[kani::proof]
    #[kani::unwind(4)]
    #[kani::stub(MatchAttempter::run_lookaround, no_lookaround)]
    #[kani::stub(MatchAttempter::run_scm_loop, no_scm_loop)]
    #[kani::stub(MatchAttempter::run_loop, no_run_loop)]
    fn e2_bt_byteset4() {
        byteset_body(4);
    }

    fn match_any_body(dotall: bool) {
        let h = Hay::any();
        let k = Hay::any_boundary();
        let fwd: bool = kani::any();
        let re = mk(vec![if dotall { Insn::MatchAny } else { Insn::MatchAnyExceptLineTerminator }, Insn::Goal], 0, 0, vec![]);
        let got = exec(&re, h.text(), h.off(k), fwd);
        assert!(got == es_consume(&h, k, fwd, |x| dotall || !es_is_line_terminator(x)));
        kani::cover!(got.is_none());
        kani::cover!(got.is_some());
    }

    // @obligation name=e2_bt_match_any props=C01,C02 fn=classicalbacktrack::MatchAttempter::try_at_pos,scm::MatchAny::matches kind=bounded bound="2-char haystack (every pair of chars), every boundary, both directions" min_checks=1000 w=2 timeout=900
    // [MatchAny, Goal] consumes any one character (fails only at the end of input).
    #[kani::proof]
    #[kani::unwind(4)]
    #[kani::stub(MatchAttempter::run_lookaround, no_lookaround)]
    #[kani::stub(MatchAttempter::run_scm_loop, no_scm_loop)]
    #[kani::stub(MatchAttempter::run_loop, no_run_loop)]
    fn e2_bt_match_any() {
        match_any_body(true);
    }

    // @obligation name=e2_bt_match_any_except_lt props=C01,C02 fn=classicalbacktrack::MatchAttempter::try_at_pos,scm::MatchAnyExceptLineTerminator::matches kind=bounded bound="2-char haystack (every pair of chars), every boundary, both directions" min_checks=1000 w=2 timeout=900
    // [MatchAnyExceptLineTerminator, Goal] consumes any one character that is not LF, CR, LS or PS.
    #[kani::proof]
    #[kani::unwind(4)]
    #[kani::stub(MatchAttempter::run_lookaround, no_lookaround)]
    #[kani::stub(MatchAttempter::run_scm_loop, no_scm_loop)]
    #[kani::stub(MatchAttempter::run_loop, no_run_loop)]
    fn e2_bt_match_any_except_lt() {
        match_any_body(false);
    }

    fn wb_body(uicase: bool, fwd: bool) {
        let h = Hay::any();
        let k = Hay::any_boundary();
        let invert: bool = kani::any();
        let insn = if uicase { Insn::WordBoundaryUnicodeICase { invert } } else { Insn::WordBoundary { invert } };
        let re = mk(vec![insn, Insn::Goal], 0, 0, vec![]);
        let got = exec(&re, h.text(), h.off(k), fwd);
        let ok = if uicase {
            es_word_boundary(&h, k, invert, es_is_word_char_unicode_icase)
        } else {
            es_word_boundary(&h, k, invert, es_is_word_char)
        };
        assert!(got == if ok { Some(h.off(k)) } else { None });
        kani::cover!(got.is_some() && k == 1);
        kani::cover!(got.is_none());
    }

    // @obligation name=e2_bt_word_boundary props=C01,C02 fn=classicalbacktrack::MatchAttempter::try_at_pos kind=bounded bound="2-char haystack (every pair of chars), every boundary, forward" min_checks=1000 w=2 timeout=900
    // [WordBoundary{invert}, Goal] succeeds without moving iff (IsWordChar(left) != IsWordChar(right)) != invert.
    #[kani::proof]
    #[kani::unwind(4)]
    #[kani::stub(MatchAttempter::run_lookaround, no_lookaround)]
    #[kani::stub(MatchAttempter::run_scm_loop, no_scm_loop)]
    #[kani::stub(MatchAttempter::run_loop, no_run_loop)]
    fn e2_bt_word_boundary() {
        wb_body(false, true);
    }

    // @obligation name=e2_bt_word_boundary_uicase props=C01,C02,C10 fn=classicalbacktrack::MatchAttempter::try_at_pos kind=bounded bound="2-char haystack (every pair of chars), every boundary, forward" min_checks=1000 w=2 timeout=900
    // [WordBoundaryUnicodeICase{invert}, Goal]: same with the i+u word characters (adds U+017F and U+212A).
    #[kani::proof]
    #[kani::unwind(4)]
    #[kani::stub(MatchAttempter::run_lookaround, no_lookaround)]
    #[kani::stub(MatchAttempter::run_scm_loop, no_scm_loop)]
    #[kani::stub(MatchAttempter::run_loop, no_run_loop)]
    fn e2_bt_word_boundary_uicase() {
        wb_body(true, true);
    }

    // @obligation name=e2_bt_word_boundary_backward props=C01:t,C02:t fn=classicalbacktrack::MatchAttempter::try_at_pos kind=bounded bound="2-char haystack (every pair of chars), every boundary, backward (inside lookbehind)" min_checks=1000 w=2 timeout=1800
    // Word boundaries evaluated while travelling backward give the same answers.
    #[kani::proof]
    #[kani::unwind(4)]
    #[kani::stub(MatchAttempter::run_lookaround, no_lookaround)]
    #[kani::stub(MatchAttempter::run_scm_loop, no_scm_loop)]
    #[kani::stub(MatchAttempter::run_loop, no_run_loop)]
    fn e2_bt_word_boundary_backward() {
        wb_body(false, false);
    }

    fn anchor_body(start: bool) {
        let h = Hay::any();
        let k = Hay::any_boundary();
        let multiline: bool = kani::any();
        let insn = if start { Insn::StartOfLine { multiline } } else { Insn::EndOfLine { multiline } };
        let re = mk(vec![insn, Insn::Goal], 0, 0, vec![]);
        let got = exec(&re, h.text(), h.off(k), true);
        let ok = if start { es_start_of_line(&h, k, multiline) } else { es_end_of_line(&h, k, multiline) };
        assert!(got == if ok { Some(h.off(k)) } else { None });
        kani::cover!(got.is_some() && multiline && k == 1);
        kani::cover!(got.is_none() && multiline && k == 1);
    }

    // @obligation name=e2_bt_start_of_line props=C01,C02 fn=classicalbacktrack::MatchAttempter::try_at_pos kind=bounded bound="2-char haystack (every pair of chars), every boundary" min_checks=1000 w=2 timeout=900
    // [StartOfLine{m}, Goal]: succeeds without moving iff at the left end, or m and the character to the left is a line terminator.
    #[kani::proof]
    #[kani::unwind(4)]
    #[kani::stub(MatchAttempter::run_lookaround, no_lookaround)]
    #[kani::stub(MatchAttempter::run_scm_loop, no_scm_loop)]
    #[kani::stub(MatchAttempter::run_loop, no_run_loop)]
    fn e2_bt_start_of_line() {
        anchor_body(true);
    }

    // @obligation name=e2_bt_end_of_line props=C01,C02 fn=classicalbacktrack::MatchAttempter::try_at_pos kind=bounded bound="2-char haystack (every pair of chars), every boundary" min_checks=1000 w=2 timeout=900
    // [EndOfLine{m}, Goal]: succeeds without moving iff at the right end, or m and the character to the right is a line terminator.
    #[kani::proof]
    #[kani::unwind(4)]
    #[kani::stub(MatchAttempter::run_lookaround, no_lookaround)]
    #[kani::stub(MatchAttempter::run_scm_loop, no_scm_loop)]
    #[kani::stub(MatchAttempter::run_loop, no_run_loop)]
    fn e2_bt_end_of_line() {
        anchor_body(false);
    }

    fn jump_alt_body(which: u8) {
        // Concrete data on purpose: two paths that both keep dispatching would be merged by CBMC into a symbolic
        // instruction pointer (all 40 arms explored). Alt/Jump do not inspect the text, so nothing is lost.
        match which {
            0 => {
                let x: u8 = kani::any();
                let b: u8 = kani::any();
                kani::assume(b < 128);
                let buf = [b];
                let text = unsafe { core::str::from_utf8_unchecked(&buf) };
                // Jump over a failing instruction
                let re = mk(vec![Insn::Jump { target: 2 }, Insn::JustFail, Insn::ByteSeq1([x]), Insn::Goal], 0, 0, vec![]);
                assert!(exec(&re, text, 0, true) == if b == x { Some(1) } else { None });
            }
            1 => {
                // Alt, primary succeeds: the secondary is never taken
                unsafe { EXP_IP = 2; EXP_OFF = 0; }
                let re = mk(vec![Insn::Alt { secondary: 2 }, Insn::Goal, Insn::JustFail], 0, 0, vec![]);
                assert!(exec(&re, "a", 0, true) == Some(0));
                unsafe { assert!(RESUMED == 0); }
            }
            2 => {
                // Alt, primary fails: the secondary runs from the position at which the Alt was executed
                unsafe { EXP_IP = 2; EXP_OFF = 0; }
                let re = mk(vec![Insn::Alt { secondary: 2 }, Insn::JustFail, Insn::Goal], 0, 0, vec![]);
                assert!(exec(&re, "a", 0, true) == Some(0));
                unsafe { assert!(RESUMED == 1); }
            }
            _ => {
                // Alt whose secondary fails too
                unsafe { EXP_IP = 3; EXP_OFF = 0; }
                let re = mk(vec![Insn::Alt { secondary: 3 }, Insn::ByteSeq1([b'x']), Insn::Goal, Insn::JustFail], 0, 0, vec![]);
                assert!(exec(&re, "a", 0, true).is_none());
                unsafe { assert!(RESUMED == 1); }
            }
        }
        kani::cover!(true);
    }

    // @obligation name=e2_bt_jump props=C01,C02 fn=classicalbacktrack::MatchAttempter::try_at_pos kind=bounded bound="1-char ASCII haystack; probe operand symbolic" min_checks=1000 w=2 timeout=900
    // Jump{t} continues at instruction t (the skipped instruction is not executed).
    #[kani::proof]
    #[kani::unwind(5)]
    #[kani::stub(MatchAttempter::run_lookaround, no_lookaround)]
    #[kani::stub(MatchAttempter::run_scm_loop, no_scm_loop)]
    #[kani::stub(MatchAttempter::run_loop, no_run_loop)]
    #[kani::stub(MatchAttempter::try_backtrack, spec_backtrack)]
    fn e2_bt_jump() {
        jump_alt_body(0);
    }

    // @obligation name=e2_bt_alt props=C01,C02 fn=classicalbacktrack::MatchAttempter::try_at_pos kind=bounded bound="concrete 1-char haystack (Alt does not inspect the text); try_backtrack replaced by its contract (e4_bt_records_data)" min_checks=1000 w=2 timeout=900
    // Alt{s}: the next instruction is tried first; the secondary is taken exactly when the primary path fails, from the
    // position at which the Alt was executed (ordered choice).
    #[kani::proof]
    #[kani::unwind(5)]
    #[kani::stub(MatchAttempter::run_lookaround, no_lookaround)]
    #[kani::stub(MatchAttempter::run_scm_loop, no_scm_loop)]
    #[kani::stub(MatchAttempter::run_loop, no_run_loop)]
    #[kani::stub(MatchAttempter::try_backtrack, spec_backtrack)]
    fn e2_bt_alt() {
        jump_alt_body(1);
    }

    // @obligation name=e2_bt_alt_secondary props=C01,C02 fn=classicalbacktrack::MatchAttempter::try_at_pos kind=bounded bound="concrete 2-char haystack; try_backtrack replaced by its contract (e4_bt_records_data)" min_checks=1000 w=2 timeout=900
    // Alt{s}, primary fails: the secondary is taken from the position at which the Alt was executed.
    #[kani::proof]
    #[kani::unwind(6)]
    #[kani::stub(MatchAttempter::run_lookaround, no_lookaround)]
    #[kani::stub(MatchAttempter::run_scm_loop, no_scm_loop)]
    #[kani::stub(MatchAttempter::run_loop, no_run_loop)]
    #[kani::stub(MatchAttempter::try_backtrack, spec_backtrack)]
    fn e2_bt_alt_secondary() {
        jump_alt_body(2);
    }

    // @obligation name=e2_bt_alt_both_fail props=C01,C02 fn=classicalbacktrack::MatchAttempter::try_at_pos kind=bounded bound="concrete 1-char haystack; try_backtrack replaced by its contract (e4_bt_records_data)" min_checks=1000 w=2 timeout=900
    // Alt{s} whose secondary also fails: the attempt fails (unless the primary succeeded).
    #[kani::proof]
    #[kani::unwind(5)]
    #[kani::stub(MatchAttempter::run_lookaround, no_lookaround)]
    #[kani::stub(MatchAttempter::run_scm_loop, no_scm_loop)]
    #[kani::stub(MatchAttempter::run_loop, no_run_loop)]
    #[kani::stub(MatchAttempter::try_backtrack, spec_backtrack)]
    fn e2_bt_alt_both_fail() {
        jump_alt_body(3);
    }

    fn capture_body(which: u8, fwd: bool) {
        let input = Utf8Input::new("ab", false);
        let p: usize = kani::any();
        kani::assume(p <= 2);
        let insn = match which { 0 => Insn::BeginCaptureGroup(1), 1 => Insn::EndCaptureGroup(1), _ => Insn::ResetCaptureGroup(1) };
        let re = mk(vec![insn, Insn::Goal], 0, 3, vec![]);
        let mut m = MatchAttempter::<Utf8Input>::new(&re, input.left_end());
        let g0 = GroupData { start: any_opt_pos(&input, 2), end: any_opt_pos(&input, 2) };
        let g1 = GroupData { start: any_opt_pos(&input, 2), end: any_opt_pos(&input, 2) };
        let g2 = GroupData { start: any_opt_pos(&input, 2), end: any_opt_pos(&input, 2) };
        // preconditions the code states itself (debug_assert): a group is entered before it is exited, and not re-entered
        if which == 0 { kani::assume(if fwd { g1.end.is_none() } else { g1.start.is_none() }); }
        if which == 1 { kani::assume(if fwd { g1.start.is_some() } else { g1.end.is_some() }); }
        m.s.groups[0] = g0;
        m.s.groups[1] = g1;
        m.s.groups[2] = g2;
        let pos = input.left_end() + p;
        let r = if fwd { m.try_at_pos(input, 0, pos, Forward::new()) } else { m.try_at_pos(input, 0, pos, Backward::new()) };
        assert!(r == Some(pos));
        let n = m.s.groups[1];
        match (which, fwd) {
            (0, true) => assert!(n.start == Some(pos) && n.end == g1.end),
            (0, false) => assert!(n.end == Some(pos) && n.start == g1.start),
            (1, true) => assert!(n.end == Some(pos) && n.start == g1.start),
            (1, false) => assert!(n.start == Some(pos) && n.end == g1.end),
            _ => assert!(n.start.is_none() && n.end.is_none()),
        }
        assert!(m.s.groups[0].start == g0.start && m.s.groups[0].end == g0.end);
        assert!(m.s.groups[2].start == g2.start && m.s.groups[2].end == g2.end);
        assert!(m.bts.len() == 1);
        kani::cover!(g0.start.is_some());
    }


    // @obligation name=e2_bt_capture_begin props=C01,C02,C16 fn=classicalbacktrack::MatchAttempter::try_at_pos kind=bounded bound="2-byte ASCII haystack, every position, forward, 3 groups with symbolic initial values" min_checks=1000 w=2 timeout=900
    // BeginCaptureGroup(g) records the current position as the group's start (end when travelling backward); other groups untouched; position unchanged.
    #[kani::proof]
    #[kani::unwind(5)]
    #[kani::stub(MatchAttempter::run_lookaround, no_lookaround)]
    #[kani::stub(MatchAttempter::run_scm_loop, no_scm_loop)]
    #[kani::stub(MatchAttempter::run_loop, no_run_loop)]
    fn e2_bt_capture_begin() {
        capture_body(0, true);
    }

    // @obligation name=e2_bt_capture_begin_backward props=C01:t,C02:t fn=classicalbacktrack::MatchAttempter::try_at_pos kind=bounded bound="2-byte ASCII haystack, every position, backward, 3 groups with symbolic initial values" min_checks=1000 w=2 timeout=900
    // BeginCaptureGroup(g) records the current position as the group's start (end when travelling backward); other groups untouched; position unchanged.
    #[kani::proof]
    #[kani::unwind(5)]
    #[kani::stub(MatchAttempter::run_lookaround, no_lookaround)]
    #[kani::stub(MatchAttempter::run_scm_loop, no_scm_loop)]
    #[kani::stub(MatchAttempter::run_loop, no_run_loop)]
    fn e2_bt_capture_begin_backward() {
        capture_body(0, false);
    }

    // @obligation name=e2_bt_capture_end props=C01,C02,C16 fn=classicalbacktrack::MatchAttempter::try_at_pos kind=bounded bound="2-byte ASCII haystack, every position, forward, 3 groups with symbolic initial values" min_checks=1000 w=2 timeout=900
    // EndCaptureGroup(g) records the current position as the group's end (start when travelling backward); other groups untouched; position unchanged.
    #[kani::proof]
    #[kani::unwind(5)]
    #[kani::stub(MatchAttempter::run_lookaround, no_lookaround)]
    #[kani::stub(MatchAttempter::run_scm_loop, no_scm_loop)]
    #[kani::stub(MatchAttempter::run_loop, no_run_loop)]
    fn e2_bt_capture_end() {
        capture_body(1, true);
    }

    // @obligation name=e2_bt_capture_end_backward props=C01:t,C02:t fn=classicalbacktrack::MatchAttempter::try_at_pos kind=bounded bound="2-byte ASCII haystack, every position, backward, 3 groups with symbolic initial values" min_checks=1000 w=2 timeout=900
    // EndCaptureGroup(g) records the current position as the group's end (start when travelling backward); other groups untouched; position unchanged.
    #[kani::proof]
    #[kani::unwind(5)]
    #[kani::stub(MatchAttempter::run_lookaround, no_lookaround)]
    #[kani::stub(MatchAttempter::run_scm_loop, no_scm_loop)]
    #[kani::stub(MatchAttempter::run_loop, no_run_loop)]
    fn e2_bt_capture_end_backward() {
        capture_body(1, false);
    }

    // @obligation name=e2_bt_capture_reset props=C01,C02,C16 fn=classicalbacktrack::MatchAttempter::try_at_pos kind=bounded bound="2-byte ASCII haystack, every position, forward, 3 groups with symbolic initial values" min_checks=1000 w=2 timeout=900
    // ResetCaptureGroup(g) clears both bounds; other groups untouched; position unchanged.
    #[kani::proof]
    #[kani::unwind(5)]
    #[kani::stub(MatchAttempter::run_lookaround, no_lookaround)]
    #[kani::stub(MatchAttempter::run_scm_loop, no_scm_loop)]
    #[kani::stub(MatchAttempter::run_loop, no_run_loop)]
    fn e2_bt_capture_reset() {
        capture_body(2, true);
    }

    // @obligation name=e2_bt_capture_reset_backward props=C01:t,C02:t fn=classicalbacktrack::MatchAttempter::try_at_pos kind=bounded bound="2-byte ASCII haystack, every position, backward, 3 groups with symbolic initial values" min_checks=1000 w=2 timeout=900
    // ResetCaptureGroup(g) clears both bounds; other groups untouched; position unchanged.
    #[kani::proof]
    #[kani::unwind(5)]
    #[kani::stub(MatchAttempter::run_lookaround, no_lookaround)]
    #[kani::stub(MatchAttempter::run_scm_loop, no_scm_loop)]
    #[kani::stub(MatchAttempter::run_loop, no_run_loop)]
    fn e2_bt_capture_reset_backward() {
        capture_body(2, false);
    }

    // @obligation name=e2_bt_backref props=C01,C02 fn=classicalbacktrack::MatchAttempter::try_at_pos,matchers::backref kind=bounded bound="4-byte ASCII haystack (symbolic), every group range, every position, both directions" min_checks=1000 w=2 timeout=900
    // [BackRef{g}, Goal]: if group g has both bounds, succeeds iff the text at the current position (forward: after it,
    // backward: before it) equals the captured text and moves by its length; if the group has not participated it
    // succeeds without moving.
    #[kani::proof]
    #[kani::unwind(6)]
    #[kani::stub(MatchAttempter::run_lookaround, no_lookaround)]
    #[kani::stub(MatchAttempter::run_scm_loop, no_scm_loop)]
    #[kani::stub(MatchAttempter::run_loop, no_run_loop)]
    fn e2_bt_backref() {
        let b: [u8; 4] = kani::any();
        kani::assume(b[0] < 128 && b[1] < 128 && b[2] < 128 && b[3] < 128);
        let text = unsafe { core::str::from_utf8_unchecked(&b) };
        let input = Utf8Input::new(text, false);
        let re = mk(vec![Insn::BackRef { group: 0, icase: false }, Insn::Goal], 0, 1, vec![]);
        let mut m = MatchAttempter::<Utf8Input>::new(&re, input.left_end());
        let g = GroupData { start: any_opt_pos(&input, 4), end: any_opt_pos(&input, 4) };
        if let (Some(s), Some(e)) = (g.start, g.end) { kani::assume(s <= e); }
        m.s.groups[0] = g;
        let p: usize = kani::any();
        kani::assume(p <= 4);
        let fwd: bool = kani::any();
        let pos = input.left_end() + p;
        let r = if fwd { m.try_at_pos(input, 0, pos, Forward::new()) } else { m.try_at_pos(input, 0, pos, Backward::new()) };
        match (g.start, g.end) {
            (Some(s), Some(e)) => {
                let (s, e) = (input.pos_to_offset(s), input.pos_to_offset(e));
                let len = e - s;
                let fits = if fwd { p + len <= 4 } else { p >= len };
                let base = if fwd { p } else { p.wrapping_sub(len) };
                let mut eq = fits;
                let mut i = 0;
                while i < len {
                    if fits && b[base + i] != b[s + i] { eq = false; }
                    i += 1;
                }
                assert!(r.is_some() == eq);
                if let Some(q) = r { assert!(input.pos_to_offset(q) == if fwd { p + len } else { p - len }); }
            }
            _ => assert!(r == Some(pos)),
        }
        kani::cover!(r.is_some() && g.start.is_some() && g.end.is_some() && !fwd);
        kani::cover!(r.is_none());
        kani::cover!(g.end.is_none());
    }

    fn ascii_steps_body(which: u8) {
        let h = Hay::any_ascii();
        let k = Hay::any_boundary();
        let fwd: bool = kani::any();
        let c: u32 = kani::any();
        let set: [u32; 4] = kani::any();
        let flag: bool = kani::any();
        let (cps, _ivs, _n) = crate::matchers::__verif::any_cps(1);
        let insn = match which {
            0 => Insn::Char(c),
            1 => Insn::CharSet(set),
            2 => Insn::Bracket(0),
            3 => Insn::AsciiBracket(crate::bytesearch::AsciiBitmap(kani::any())),
            4 => Insn::MatchAnyExceptLineTerminator,
            5 => Insn::WordBoundary { invert: flag },
            6 => Insn::StartOfLine { multiline: flag },
            _ => Insn::EndOfLine { multiline: flag },
        };
        let re = mk(vec![insn, Insn::Goal], 0, 0, vec![BracketContents { invert: flag, cps }]);
        assert!(exec_ascii(&re, h.text(), h.off(k), fwd) == exec(&re, h.text(), h.off(k), fwd));
        kani::cover!(c > 255);
    }

    // @obligation name=e2_bt_ai_char props=C13,C02:t fn=classicalbacktrack::MatchAttempter::try_at_pos kind=bounded bound="2-char ASCII haystack, every boundary, both directions; symbolic operands" min_checks=1000 w=2 timeout=900
    // On an ASCII haystack the ASCII-input interpreter returns for this instruction kind (char) the same result as the
    // UTF-8-input interpreter (an operand outside Latin-1 never matches and never aborts).
    #[kani::proof]
    #[kani::unwind(6)]
    #[kani::stub(MatchAttempter::run_lookaround, no_lookaround)]
    #[kani::stub(MatchAttempter::run_scm_loop, no_scm_loop)]
    #[kani::stub(MatchAttempter::run_loop, no_run_loop)]
    fn e2_bt_ai_char() {
        ascii_steps_body(0);
    }

    // @obligation name=e2_bt_ai_charset props=C13,C02:t fn=classicalbacktrack::MatchAttempter::try_at_pos kind=bounded bound="2-char ASCII haystack, every boundary, both directions; symbolic operands" min_checks=1000 w=2 timeout=900
    // On an ASCII haystack the ASCII-input interpreter returns for this instruction kind (charset) the same result as the
    // UTF-8-input interpreter (an operand outside Latin-1 never matches and never aborts).
    #[kani::proof]
    #[kani::unwind(6)]
    #[kani::stub(MatchAttempter::run_lookaround, no_lookaround)]
    #[kani::stub(MatchAttempter::run_scm_loop, no_scm_loop)]
    #[kani::stub(MatchAttempter::run_loop, no_run_loop)]
    fn e2_bt_ai_charset() {
        ascii_steps_body(1);
    }

    // @obligation name=e2_bt_ai_bracket props=C13,C02:t fn=classicalbacktrack::MatchAttempter::try_at_pos kind=bounded bound="2-char ASCII haystack, every boundary, both directions; symbolic operands" min_checks=1000 w=2 timeout=900
    // On an ASCII haystack the ASCII-input interpreter returns for this instruction kind (bracket) the same result as the
    // UTF-8-input interpreter (an operand outside Latin-1 never matches and never aborts).
    #[kani::proof]
    #[kani::unwind(6)]
    #[kani::stub(MatchAttempter::run_lookaround, no_lookaround)]
    #[kani::stub(MatchAttempter::run_scm_loop, no_scm_loop)]
    #[kani::stub(MatchAttempter::run_loop, no_run_loop)]
    fn e2_bt_ai_bracket() {
        ascii_steps_body(2);
    }

    // @obligation name=e2_bt_ai_ascii_bracket props=C13:t,C02:t fn=classicalbacktrack::MatchAttempter::try_at_pos kind=bounded bound="2-char ASCII haystack, every boundary, both directions; symbolic operands" min_checks=1000 w=2 timeout=900
    // On an ASCII haystack the ASCII-input interpreter returns for this instruction kind (ascii_bracket) the same result as the
    // UTF-8-input interpreter (an operand outside Latin-1 never matches and never aborts).
    #[kani::proof]
    #[kani::unwind(6)]
    #[kani::stub(MatchAttempter::run_lookaround, no_lookaround)]
    #[kani::stub(MatchAttempter::run_scm_loop, no_scm_loop)]
    #[kani::stub(MatchAttempter::run_loop, no_run_loop)]
    fn e2_bt_ai_ascii_bracket() {
        ascii_steps_body(3);
    }

    // @obligation name=e2_bt_ai_match_any props=C13:t,C02:t fn=classicalbacktrack::MatchAttempter::try_at_pos kind=bounded bound="2-char ASCII haystack, every boundary, both directions; symbolic operands" min_checks=1000 w=2 timeout=900
    // On an ASCII haystack the ASCII-input interpreter returns for this instruction kind (match_any) the same result as the
    // UTF-8-input interpreter (an operand outside Latin-1 never matches and never aborts).
    #[kani::proof]
    #[kani::unwind(6)]
    #[kani::stub(MatchAttempter::run_lookaround, no_lookaround)]
    #[kani::stub(MatchAttempter::run_scm_loop, no_scm_loop)]
    #[kani::stub(MatchAttempter::run_loop, no_run_loop)]
    fn e2_bt_ai_match_any() {
        ascii_steps_body(4);
    }

    // @obligation name=e2_bt_ai_word_boundary props=C13,C02:t fn=classicalbacktrack::MatchAttempter::try_at_pos kind=bounded bound="2-char ASCII haystack, every boundary, both directions; symbolic operands" min_checks=1000 w=2 timeout=900
    // On an ASCII haystack the ASCII-input interpreter returns for this instruction kind (word_boundary) the same result as the
    // UTF-8-input interpreter (an operand outside Latin-1 never matches and never aborts).
    #[kani::proof]
    #[kani::unwind(6)]
    #[kani::stub(MatchAttempter::run_lookaround, no_lookaround)]
    #[kani::stub(MatchAttempter::run_scm_loop, no_scm_loop)]
    #[kani::stub(MatchAttempter::run_loop, no_run_loop)]
    fn e2_bt_ai_word_boundary() {
        ascii_steps_body(5);
    }

    // @obligation name=e2_bt_ai_start_of_line props=C13:t,C02:t fn=classicalbacktrack::MatchAttempter::try_at_pos kind=bounded bound="2-char ASCII haystack, every boundary, both directions; symbolic operands" min_checks=1000 w=2 timeout=900
    // On an ASCII haystack the ASCII-input interpreter returns for this instruction kind (start_of_line) the same result as the
    // UTF-8-input interpreter (an operand outside Latin-1 never matches and never aborts).
    #[kani::proof]
    #[kani::unwind(6)]
    #[kani::stub(MatchAttempter::run_lookaround, no_lookaround)]
    #[kani::stub(MatchAttempter::run_scm_loop, no_scm_loop)]
    #[kani::stub(MatchAttempter::run_loop, no_run_loop)]
    fn e2_bt_ai_start_of_line() {
        ascii_steps_body(6);
    }

    // @obligation name=e2_bt_ai_end_of_line props=C13:t,C02:t fn=classicalbacktrack::MatchAttempter::try_at_pos kind=bounded bound="2-char ASCII haystack, every boundary, both directions; symbolic operands" min_checks=1000 w=2 timeout=900
    // On an ASCII haystack the ASCII-input interpreter returns for this instruction kind (end_of_line) the same result as the
    // UTF-8-input interpreter (an operand outside Latin-1 never matches and never aborts).
    #[kani::proof]
    #[kani::unwind(6)]
    #[kani::stub(MatchAttempter::run_lookaround, no_lookaround)]
    #[kani::stub(MatchAttempter::run_scm_loop, no_scm_loop)]
    #[kani::stub(MatchAttempter::run_loop, no_run_loop)]
    fn e2_bt_ai_end_of_line() {
        ascii_steps_body(7);
    }

    // @obligation name=e2_bt_byteseq1 props=C01,C02,C06 fn=classicalbacktrack::MatchAttempter::try_at_pos,cursor::try_match_lit,indexing::Utf8Input::match_bytes kind=bounded bound="ASCII haystack of 2 symbolic bytes, every offset, both directions; operand: 1 symbolic bytes" min_checks=1000 w=2 timeout=900
    // [ByteSeq1(bytes), Goal]: forward, succeeds iff the next 1 bytes equal the operand and ends 1 bytes later;
    // backward, the previous 1 bytes, ending 1 bytes earlier; fails when fewer than 1 bytes remain.
    #[kani::proof]
    #[kani::unwind(4)]
    #[kani::stub(MatchAttempter::run_lookaround, no_lookaround)]
    #[kani::stub(MatchAttempter::run_scm_loop, no_scm_loop)]
    #[kani::stub(MatchAttempter::run_loop, no_run_loop)]
    fn e2_bt_byteseq1() {
        let b: [u8; 2] = kani::any();
        let mut i = 0;
        while i < 2 { kani::assume(b[i] < 128); i += 1; }
        let text = unsafe { core::str::from_utf8_unchecked(&b) };
        let lit: [u8; 1] = kani::any();
        let off: usize = kani::any();
        kani::assume(off <= 2);
        let fwd: bool = kani::any();
        let re = mk(vec![Insn::ByteSeq1(lit), Insn::Goal], 0, 0, vec![]);
        let got = exec(&re, text, off, fwd);
        let fits = if fwd { off + 1 <= 2 } else { off >= 1 };
        let base = if fwd { off } else { off.wrapping_sub(1) };
        let mut eq = fits;
        let mut i = 0;
        while i < 1 {
            if fits && b[base + i] != lit[i] { eq = false; }
            i += 1;
        }
        assert!(got == if eq { Some(if fwd { off + 1 } else { off - 1 }) } else { None });
        kani::cover!(got.is_some() && fwd);
        kani::cover!(got.is_some() && !fwd);
        kani::cover!(got.is_none() && fits);
    }

    // @obligation name=e2_bt_byteseq2 props=C01,C02,C06 fn=classicalbacktrack::MatchAttempter::try_at_pos,cursor::try_match_lit,indexing::Utf8Input::match_bytes kind=bounded bound="ASCII haystack of 3 symbolic bytes, every offset, both directions; operand: 2 symbolic bytes" min_checks=1000 w=2 timeout=900
    // [ByteSeq2(bytes), Goal]: forward, succeeds iff the next 2 bytes equal the operand and ends 2 bytes later;
    // backward, the previous 2 bytes, ending 2 bytes earlier; fails when fewer than 2 bytes remain.
    #[kani::proof]
    #[kani::unwind(5)]
    #[kani::stub(MatchAttempter::run_lookaround, no_lookaround)]
    #[kani::stub(MatchAttempter::run_scm_loop, no_scm_loop)]
    #[kani::stub(MatchAttempter::run_loop, no_run_loop)]
    fn e2_bt_byteseq2() {
        let b: [u8; 3] = kani::any();
        let mut i = 0;
        while i < 3 { kani::assume(b[i] < 128); i += 1; }
        let text = unsafe { core::str::from_utf8_unchecked(&b) };
        let lit: [u8; 2] = kani::any();
        let off: usize = kani::any();
        kani::assume(off <= 3);
        let fwd: bool = kani::any();
        let re = mk(vec![Insn::ByteSeq2(lit), Insn::Goal], 0, 0, vec![]);
        let got = exec(&re, text, off, fwd);
        let fits = if fwd { off + 2 <= 3 } else { off >= 2 };
        let base = if fwd { off } else { off.wrapping_sub(2) };
        let mut eq = fits;
        let mut i = 0;
        while i < 2 {
            if fits && b[base + i] != lit[i] { eq = false; }
            i += 1;
        }
        assert!(got == if eq { Some(if fwd { off + 2 } else { off - 2 }) } else { None });
        kani::cover!(got.is_some() && fwd);
        kani::cover!(got.is_some() && !fwd);
        kani::cover!(got.is_none() && fits);
    }

    // @obligation name=e2_bt_byteseq3 props=C01:t,C02:t,C06:t fn=classicalbacktrack::MatchAttempter::try_at_pos,cursor::try_match_lit,indexing::Utf8Input::match_bytes kind=bounded bound="ASCII haystack of 4 symbolic bytes, every offset, both directions; operand: 3 symbolic bytes" min_checks=1000 w=2 timeout=900
    // [ByteSeq3(bytes), Goal]: forward, succeeds iff the next 3 bytes equal the operand and ends 3 bytes later;
    // backward, the previous 3 bytes, ending 3 bytes earlier; fails when fewer than 3 bytes remain.
    #[kani::proof]
    #[kani::unwind(6)]
    #[kani::stub(MatchAttempter::run_lookaround, no_lookaround)]
    #[kani::stub(MatchAttempter::run_scm_loop, no_scm_loop)]
    #[kani::stub(MatchAttempter::run_loop, no_run_loop)]
    fn e2_bt_byteseq3() {
        let b: [u8; 4] = kani::any();
        let mut i = 0;
        while i < 4 { kani::assume(b[i] < 128); i += 1; }
        let text = unsafe { core::str::from_utf8_unchecked(&b) };
        let lit: [u8; 3] = kani::any();
        let off: usize = kani::any();
        kani::assume(off <= 4);
        let fwd: bool = kani::any();
        let re = mk(vec![Insn::ByteSeq3(lit), Insn::Goal], 0, 0, vec![]);
        let got = exec(&re, text, off, fwd);
        let fits = if fwd { off + 3 <= 4 } else { off >= 3 };
        let base = if fwd { off } else { off.wrapping_sub(3) };
        let mut eq = fits;
        let mut i = 0;
        while i < 3 {
            if fits && b[base + i] != lit[i] { eq = false; }
            i += 1;
        }
        assert!(got == if eq { Some(if fwd { off + 3 } else { off - 3 }) } else { None });
        kani::cover!(got.is_some() && fwd);
        kani::cover!(got.is_some() && !fwd);
        kani::cover!(got.is_none() && fits);
    }

    // @obligation name=e2_bt_byteseq4 props=C01,C02,C06 fn=classicalbacktrack::MatchAttempter::try_at_pos,cursor::try_match_lit,indexing::Utf8Input::match_bytes kind=bounded bound="ASCII haystack of 5 symbolic bytes, every offset, both directions; operand: 4 symbolic bytes" min_checks=1000 w=2 timeout=900
    // [ByteSeq4(bytes), Goal]: forward, succeeds iff the next 4 bytes equal the operand and ends 4 bytes later;
    // backward, the previous 4 bytes, ending 4 bytes earlier; fails when fewer than 4 bytes remain.
    #[kani::proof]
    #[kani::unwind(7)]
    #[kani::stub(MatchAttempter::run_lookaround, no_lookaround)]
    #[kani::stub(MatchAttempter::run_scm_loop, no_scm_loop)]
    #[kani::stub(MatchAttempter::run_loop, no_run_loop)]
    fn e2_bt_byteseq4() {
        let b: [u8; 5] = kani::any();
        let mut i = 0;
        while i < 5 { kani::assume(b[i] < 128); i += 1; }
        let text = unsafe { core::str::from_utf8_unchecked(&b) };
        let lit: [u8; 4] = kani::any();
        let off: usize = kani::any();
        kani::assume(off <= 5);
        let fwd: bool = kani::any();
        let re = mk(vec![Insn::ByteSeq4(lit), Insn::Goal], 0, 0, vec![]);
        let got = exec(&re, text, off, fwd);
        let fits = if fwd { off + 4 <= 5 } else { off >= 4 };
        let base = if fwd { off } else { off.wrapping_sub(4) };
        let mut eq = fits;
        let mut i = 0;
        while i < 4 {
            if fits && b[base + i] != lit[i] { eq = false; }
            i += 1;
        }
        assert!(got == if eq { Some(if fwd { off + 4 } else { off - 4 }) } else { None });
        kani::cover!(got.is_some() && fwd);
        kani::cover!(got.is_some() && !fwd);
        kani::cover!(got.is_none() && fits);
    }

    // @obligation name=e2_bt_byteseq5 props=C01:t,C02:t,C06:t fn=classicalbacktrack::MatchAttempter::try_at_pos,cursor::try_match_lit,indexing::Utf8Input::match_bytes kind=bounded bound="ASCII haystack of 6 symbolic bytes, every offset, both directions; operand: 5 symbolic bytes" min_checks=1000 w=2 timeout=900
    // [ByteSeq5(bytes), Goal]: forward, succeeds iff the next 5 bytes equal the operand and ends 5 bytes later;
    // backward, the previous 5 bytes, ending 5 bytes earlier; fails when fewer than 5 bytes remain.
    #[kani::proof]
    #[kani::unwind(8)]
    #[kani::stub(MatchAttempter::run_lookaround, no_lookaround)]
    #[kani::stub(MatchAttempter::run_scm_loop, no_scm_loop)]
    #[kani::stub(MatchAttempter::run_loop, no_run_loop)]
    fn e2_bt_byteseq5() {
        let b: [u8; 6] = kani::any();
        let mut i = 0;
        while i < 6 { kani::assume(b[i] < 128); i += 1; }
        let text = unsafe { core::str::from_utf8_unchecked(&b) };
        let lit: [u8; 5] = kani::any();
        let off: usize = kani::any();
        kani::assume(off <= 6);
        let fwd: bool = kani::any();
        let re = mk(vec![Insn::ByteSeq5(lit), Insn::Goal], 0, 0, vec![]);
        let got = exec(&re, text, off, fwd);
        let fits = if fwd { off + 5 <= 6 } else { off >= 5 };
        let base = if fwd { off } else { off.wrapping_sub(5) };
        let mut eq = fits;
        let mut i = 0;
        while i < 5 {
            if fits && b[base + i] != lit[i] { eq = false; }
            i += 1;
        }
        assert!(got == if eq { Some(if fwd { off + 5 } else { off - 5 }) } else { None });
        kani::cover!(got.is_some() && fwd);
        kani::cover!(got.is_some() && !fwd);
        kani::cover!(got.is_none() && fits);
    }

    // @obligation name=e2_bt_byteseq6 props=C01:t,C02:t,C06:t fn=classicalbacktrack::MatchAttempter::try_at_pos,cursor::try_match_lit,indexing::Utf8Input::match_bytes kind=bounded bound="ASCII haystack of 7 symbolic bytes, every offset, both directions; operand: 6 symbolic bytes" min_checks=1000 w=2 timeout=900
    // [ByteSeq6(bytes), Goal]: forward, succeeds iff the next 6 bytes equal the operand and ends 6 bytes later;
    // backward, the previous 6 bytes, ending 6 bytes earlier; fails when fewer than 6 bytes remain.
    #[kani::proof]
    #[kani::unwind(9)]
    #[kani::stub(MatchAttempter::run_lookaround, no_lookaround)]
    #[kani::stub(MatchAttempter::run_scm_loop, no_scm_loop)]
    #[kani::stub(MatchAttempter::run_loop, no_run_loop)]
    fn e2_bt_byteseq6() {
        let b: [u8; 7] = kani::any();
        let mut i = 0;
        while i < 7 { kani::assume(b[i] < 128); i += 1; }
        let text = unsafe { core::str::from_utf8_unchecked(&b) };
        let lit: [u8; 6] = kani::any();
        let off: usize = kani::any();
        kani::assume(off <= 7);
        let fwd: bool = kani::any();
        let re = mk(vec![Insn::ByteSeq6(lit), Insn::Goal], 0, 0, vec![]);
        let got = exec(&re, text, off, fwd);
        let fits = if fwd { off + 6 <= 7 } else { off >= 6 };
        let base = if fwd { off } else { off.wrapping_sub(6) };
        let mut eq = fits;
        let mut i = 0;
        while i < 6 {
            if fits && b[base + i] != lit[i] { eq = false; }
            i += 1;
        }
        assert!(got == if eq { Some(if fwd { off + 6 } else { off - 6 }) } else { None });
        kani::cover!(got.is_some() && fwd);
        kani::cover!(got.is_some() && !fwd);
        kani::cover!(got.is_none() && fits);
    }

    // @obligation name=e2_bt_byteseq7 props=C01:t,C02:t,C06:t fn=classicalbacktrack::MatchAttempter::try_at_pos,cursor::try_match_lit,indexing::Utf8Input::match_bytes kind=bounded bound="ASCII haystack of 8 symbolic bytes, every offset, both directions; operand: 7 symbolic bytes" min_checks=1000 w=2 timeout=900
    // [ByteSeq7(bytes), Goal]: forward, succeeds iff the next 7 bytes equal the operand and ends 7 bytes later;
    // backward, the previous 7 bytes, ending 7 bytes earlier; fails when fewer than 7 bytes remain.
    #[kani::proof]
    #[kani::unwind(10)]
    #[kani::stub(MatchAttempter::run_lookaround, no_lookaround)]
    #[kani::stub(MatchAttempter::run_scm_loop, no_scm_loop)]
    #[kani::stub(MatchAttempter::run_loop, no_run_loop)]
    fn e2_bt_byteseq7() {
        let b: [u8; 8] = kani::any();
        let mut i = 0;
        while i < 8 { kani::assume(b[i] < 128); i += 1; }
        let text = unsafe { core::str::from_utf8_unchecked(&b) };
        let lit: [u8; 7] = kani::any();
        let off: usize = kani::any();
        kani::assume(off <= 8);
        let fwd: bool = kani::any();
        let re = mk(vec![Insn::ByteSeq7(lit), Insn::Goal], 0, 0, vec![]);
        let got = exec(&re, text, off, fwd);
        let fits = if fwd { off + 7 <= 8 } else { off >= 7 };
        let base = if fwd { off } else { off.wrapping_sub(7) };
        let mut eq = fits;
        let mut i = 0;
        while i < 7 {
            if fits && b[base + i] != lit[i] { eq = false; }
            i += 1;
        }
        assert!(got == if eq { Some(if fwd { off + 7 } else { off - 7 }) } else { None });
        kani::cover!(got.is_some() && fwd);
        kani::cover!(got.is_some() && !fwd);
        kani::cover!(got.is_none() && fits);
    }

    // @obligation name=e2_bt_byteseq8 props=C01:t,C02:t,C06:t fn=classicalbacktrack::MatchAttempter::try_at_pos,cursor::try_match_lit,indexing::Utf8Input::match_bytes kind=bounded bound="ASCII haystack of 9 symbolic bytes, every offset, both directions; operand: 8 symbolic bytes" min_checks=1000 w=2 timeout=900
    // [ByteSeq8(bytes), Goal]: forward, succeeds iff the next 8 bytes equal the operand and ends 8 bytes later;
    // backward, the previous 8 bytes, ending 8 bytes earlier; fails when fewer than 8 bytes remain.
    #[kani::proof]
    #[kani::unwind(11)]
    #[kani::stub(MatchAttempter::run_lookaround, no_lookaround)]
    #[kani::stub(MatchAttempter::run_scm_loop, no_scm_loop)]
    #[kani::stub(MatchAttempter::run_loop, no_run_loop)]
    fn e2_bt_byteseq8() {
        let b: [u8; 9] = kani::any();
        let mut i = 0;
        while i < 9 { kani::assume(b[i] < 128); i += 1; }
        let text = unsafe { core::str::from_utf8_unchecked(&b) };
        let lit: [u8; 8] = kani::any();
        let off: usize = kani::any();
        kani::assume(off <= 9);
        let fwd: bool = kani::any();
        let re = mk(vec![Insn::ByteSeq8(lit), Insn::Goal], 0, 0, vec![]);
        let got = exec(&re, text, off, fwd);
        let fits = if fwd { off + 8 <= 9 } else { off >= 8 };
        let base = if fwd { off } else { off.wrapping_sub(8) };
        let mut eq = fits;
        let mut i = 0;
        while i < 8 {
            if fits && b[base + i] != lit[i] { eq = false; }
            i += 1;
        }
        assert!(got == if eq { Some(if fwd { off + 8 } else { off - 8 }) } else { None });
        kani::cover!(got.is_some() && fwd);
        kani::cover!(got.is_some() && !fwd);
        kani::cover!(got.is_none() && fits);
    }

    // @obligation name=e2_bt_byteseq9 props=C01:t,C02:t,C06:t fn=classicalbacktrack::MatchAttempter::try_at_pos,cursor::try_match_lit,indexing::Utf8Input::match_bytes kind=bounded bound="ASCII haystack of 10 symbolic bytes, every offset, both directions; operand: 9 symbolic bytes" min_checks=1000 w=2 timeout=900
    // [ByteSeq9(bytes), Goal]: forward, succeeds iff the next 9 bytes equal the operand and ends 9 bytes later;
    // backward, the previous 9 bytes, ending 9 bytes earlier; fails when fewer than 9 bytes remain.
    #[kani::proof]
    #[kani::unwind(12)]
    #[kani::stub(MatchAttempter::run_lookaround, no_lookaround)]
    #[kani::stub(MatchAttempter::run_scm_loop, no_scm_loop)]
    #[kani::stub(MatchAttempter::run_loop, no_run_loop)]
    fn e2_bt_byteseq9() {
        let b: [u8; 10] = kani::any();
        let mut i = 0;
        while i < 10 { kani::assume(b[i] < 128); i += 1; }
        let text = unsafe { core::str::from_utf8_unchecked(&b) };
        let lit: [u8; 9] = kani::any();
        let off: usize = kani::any();
        kani::assume(off <= 10);
        let fwd: bool = kani::any();
        let re = mk(vec![Insn::ByteSeq9(lit), Insn::Goal], 0, 0, vec![]);
        let got = exec(&re, text, off, fwd);
        let fits = if fwd { off + 9 <= 10 } else { off >= 9 };
        let base = if fwd { off } else { off.wrapping_sub(9) };
        let mut eq = fits;
        let mut i = 0;
        while i < 9 {
            if fits && b[base + i] != lit[i] { eq = false; }
            i += 1;
        }
        assert!(got == if eq { Some(if fwd { off + 9 } else { off - 9 }) } else { None });
        kani::cover!(got.is_some() && fwd);
        kani::cover!(got.is_some() && !fwd);
        kani::cover!(got.is_none() && fits);
    }

    // @obligation name=e2_bt_byteseq10 props=C01:t,C02:t,C06:t fn=classicalbacktrack::MatchAttempter::try_at_pos,cursor::try_match_lit,indexing::Utf8Input::match_bytes kind=bounded bound="ASCII haystack of 11 symbolic bytes, every offset, both directions; operand: 10 symbolic bytes" min_checks=1000 w=2 timeout=900
    // [ByteSeq10(bytes), Goal]: forward, succeeds iff the next 10 bytes equal the operand and ends 10 bytes later;
    // backward, the previous 10 bytes, ending 10 bytes earlier; fails when fewer than 10 bytes remain.
    #[kani::proof]
    #[kani::unwind(13)]
    #[kani::stub(MatchAttempter::run_lookaround, no_lookaround)]
    #[kani::stub(MatchAttempter::run_scm_loop, no_scm_loop)]
    #[kani::stub(MatchAttempter::run_loop, no_run_loop)]
    fn e2_bt_byteseq10() {
        let b: [u8; 11] = kani::any();
        let mut i = 0;
        while i < 11 { kani::assume(b[i] < 128); i += 1; }
        let text = unsafe { core::str::from_utf8_unchecked(&b) };
        let lit: [u8; 10] = kani::any();
        let off: usize = kani::any();
        kani::assume(off <= 11);
        let fwd: bool = kani::any();
        let re = mk(vec![Insn::ByteSeq10(lit), Insn::Goal], 0, 0, vec![]);
        let got = exec(&re, text, off, fwd);
        let fits = if fwd { off + 10 <= 11 } else { off >= 10 };
        let base = if fwd { off } else { off.wrapping_sub(10) };
        let mut eq = fits;
        let mut i = 0;
        while i < 10 {
            if fits && b[base + i] != lit[i] { eq = false; }
            i += 1;
        }
        assert!(got == if eq { Some(if fwd { off + 10 } else { off - 10 }) } else { None });
        kani::cover!(got.is_some() && fwd);
        kani::cover!(got.is_some() && !fwd);
        kani::cover!(got.is_none() && fits);
    }

    // @obligation name=e2_bt_byteseq11 props=C01:t,C02:t,C06:t fn=classicalbacktrack::MatchAttempter::try_at_pos,cursor::try_match_lit,indexing::Utf8Input::match_bytes kind=bounded bound="ASCII haystack of 12 symbolic bytes, every offset, both directions; operand: 11 symbolic bytes" min_checks=1000 w=2 timeout=900
    // [ByteSeq11(bytes), Goal]: forward, succeeds iff the next 11 bytes equal the operand and ends 11 bytes later;
    // backward, the previous 11 bytes, ending 11 bytes earlier; fails when fewer than 11 bytes remain.
    #[kani::proof]
    #[kani::unwind(14)]
    #[kani::stub(MatchAttempter::run_lookaround, no_lookaround)]
    #[kani::stub(MatchAttempter::run_scm_loop, no_scm_loop)]
    #[kani::stub(MatchAttempter::run_loop, no_run_loop)]
    fn e2_bt_byteseq11() {
        let b: [u8; 12] = kani::any();
        let mut i = 0;
        while i < 12 { kani::assume(b[i] < 128); i += 1; }
        let text = unsafe { core::str::from_utf8_unchecked(&b) };
        let lit: [u8; 11] = kani::any();
        let off: usize = kani::any();
        kani::assume(off <= 12);
        let fwd: bool = kani::any();
        let re = mk(vec![Insn::ByteSeq11(lit), Insn::Goal], 0, 0, vec![]);
        let got = exec(&re, text, off, fwd);
        let fits = if fwd { off + 11 <= 12 } else { off >= 11 };
        let base = if fwd { off } else { off.wrapping_sub(11) };
        let mut eq = fits;
        let mut i = 0;
        while i < 11 {
            if fits && b[base + i] != lit[i] { eq = false; }
            i += 1;
        }
        assert!(got == if eq { Some(if fwd { off + 11 } else { off - 11 }) } else { None });
        kani::cover!(got.is_some() && fwd);
        kani::cover!(got.is_some() && !fwd);
        kani::cover!(got.is_none() && fits);
    }

    // @obligation name=e2_bt_byteseq12 props=C01:t,C02:t,C06:t fn=classicalbacktrack::MatchAttempter::try_at_pos,cursor::try_match_lit,indexing::Utf8Input::match_bytes kind=bounded bound="ASCII haystack of 13 symbolic bytes, every offset, both directions; operand: 12 symbolic bytes" min_checks=1000 w=2 timeout=900
    // [ByteSeq12(bytes), Goal]: forward, succeeds iff the next 12 bytes equal the operand and ends 12 bytes later;
    // backward, the previous 12 bytes, ending 12 bytes earlier; fails when fewer than 12 bytes remain.
    #[kani::proof]
    #[kani::unwind(15)]
    #[kani::stub(MatchAttempter::run_lookaround, no_lookaround)]
    #[kani::stub(MatchAttempter::run_scm_loop, no_scm_loop)]
    #[kani::stub(MatchAttempter::run_loop, no_run_loop)]
    fn e2_bt_byteseq12() {
        let b: [u8; 13] = kani::any();
        let mut i = 0;
        while i < 13 { kani::assume(b[i] < 128); i += 1; }
        let text = unsafe { core::str::from_utf8_unchecked(&b) };
        let lit: [u8; 12] = kani::any();
        let off: usize = kani::any();
        kani::assume(off <= 13);
        let fwd: bool = kani::any();
        let re = mk(vec![Insn::ByteSeq12(lit), Insn::Goal], 0, 0, vec![]);
        let got = exec(&re, text, off, fwd);
        let fits = if fwd { off + 12 <= 13 } else { off >= 12 };
        let base = if fwd { off } else { off.wrapping_sub(12) };
        let mut eq = fits;
        let mut i = 0;
        while i < 12 {
            if fits && b[base + i] != lit[i] { eq = false; }
            i += 1;
        }
        assert!(got == if eq { Some(if fwd { off + 12 } else { off - 12 }) } else { None });
        kani::cover!(got.is_some() && fwd);
        kani::cover!(got.is_some() && !fwd);
        kani::cover!(got.is_none() && fits);
    }

    // @obligation name=e2_bt_byteseq13 props=C01:t,C02:t,C06:t fn=classicalbacktrack::MatchAttempter::try_at_pos,cursor::try_match_lit,indexing::Utf8Input::match_bytes kind=bounded bound="ASCII haystack of 14 symbolic bytes, every offset, both directions; operand: 13 symbolic bytes" min_checks=1000 w=2 timeout=900
    // [ByteSeq13(bytes), Goal]: forward, succeeds iff the next 13 bytes equal the operand and ends 13 bytes later;
    // backward, the previous 13 bytes, ending 13 bytes earlier; fails when fewer than 13 bytes remain.
    #[kani::proof]
    #[kani::unwind(16)]
    #[kani::stub(MatchAttempter::run_lookaround, no_lookaround)]
    #[kani::stub(MatchAttempter::run_scm_loop, no_scm_loop)]
    #[kani::stub(MatchAttempter::run_loop, no_run_loop)]
    fn e2_bt_byteseq13() {
        let b: [u8; 14] = kani::any();
        let mut i = 0;
        while i < 14 { kani::assume(b[i] < 128); i += 1; }
        let text = unsafe { core::str::from_utf8_unchecked(&b) };
        let lit: [u8; 13] = kani::any();
        let off: usize = kani::any();
        kani::assume(off <= 14);
        let fwd: bool = kani::any();
        let re = mk(vec![Insn::ByteSeq13(lit), Insn::Goal], 0, 0, vec![]);
        let got = exec(&re, text, off, fwd);
        let fits = if fwd { off + 13 <= 14 } else { off >= 13 };
        let base = if fwd { off } else { off.wrapping_sub(13) };
        let mut eq = fits;
        let mut i = 0;
        while i < 13 {
            if fits && b[base + i] != lit[i] { eq = false; }
            i += 1;
        }
        assert!(got == if eq { Some(if fwd { off + 13 } else { off - 13 }) } else { None });
        kani::cover!(got.is_some() && fwd);
        kani::cover!(got.is_some() && !fwd);
        kani::cover!(got.is_none() && fits);
    }

    // @obligation name=e2_bt_byteseq14 props=C01:t,C02:t,C06:t fn=classicalbacktrack::MatchAttempter::try_at_pos,cursor::try_match_lit,indexing::Utf8Input::match_bytes kind=bounded bound="ASCII haystack of 15 symbolic bytes, every offset, both directions; operand: 14 symbolic bytes" min_checks=1000 w=2 timeout=900
    // [ByteSeq14(bytes), Goal]: forward, succeeds iff the next 14 bytes equal the operand and ends 14 bytes later;
    // backward, the previous 14 bytes, ending 14 bytes earlier; fails when fewer than 14 bytes remain.
    #[kani::proof]
    #[kani::unwind(17)]
    #[kani::stub(MatchAttempter::run_lookaround, no_lookaround)]
    #[kani::stub(MatchAttempter::run_scm_loop, no_scm_loop)]
    #[kani::stub(MatchAttempter::run_loop, no_run_loop)]
    fn e2_bt_byteseq14() {
        let b: [u8; 15] = kani::any();
        let mut i = 0;
        while i < 15 { kani::assume(b[i] < 128); i += 1; }
        let text = unsafe { core::str::from_utf8_unchecked(&b) };
        let lit: [u8; 14] = kani::any();
        let off: usize = kani::any();
        kani::assume(off <= 15);
        let fwd: bool = kani::any();
        let re = mk(vec![Insn::ByteSeq14(lit), Insn::Goal], 0, 0, vec![]);
        let got = exec(&re, text, off, fwd);
        let fits = if fwd { off + 14 <= 15 } else { off >= 14 };
        let base = if fwd { off } else { off.wrapping_sub(14) };
        let mut eq = fits;
        let mut i = 0;
        while i < 14 {
            if fits && b[base + i] != lit[i] { eq = false; }
            i += 1;
        }
        assert!(got == if eq { Some(if fwd { off + 14 } else { off - 14 }) } else { None });
        kani::cover!(got.is_some() && fwd);
        kani::cover!(got.is_some() && !fwd);
        kani::cover!(got.is_none() && fits);
    }

    // @obligation name=e2_bt_byteseq15 props=C01:t,C02:t,C06:t fn=classicalbacktrack::MatchAttempter::try_at_pos,cursor::try_match_lit,indexing::Utf8Input::match_bytes kind=bounded bound="ASCII haystack of 16 symbolic bytes, every offset, both directions; operand: 15 symbolic bytes" min_checks=1000 w=2 timeout=900
    // [ByteSeq15(bytes), Goal]: forward, succeeds iff the next 15 bytes equal the operand and ends 15 bytes later;
    // backward, the previous 15 bytes, ending 15 bytes earlier; fails when fewer than 15 bytes remain.
    #[kani::proof]
    #[kani::unwind(18)]
    #[kani::stub(MatchAttempter::run_lookaround, no_lookaround)]
    #[kani::stub(MatchAttempter::run_scm_loop, no_scm_loop)]
    #[kani::stub(MatchAttempter::run_loop, no_run_loop)]
    fn e2_bt_byteseq15() {
        let b: [u8; 16] = kani::any();
        let mut i = 0;
        while i < 16 { kani::assume(b[i] < 128); i += 1; }
        let text = unsafe { core::str::from_utf8_unchecked(&b) };
        let lit: [u8; 15] = kani::any();
        let off: usize = kani::any();
        kani::assume(off <= 16);
        let fwd: bool = kani::any();
        let re = mk(vec![Insn::ByteSeq15(lit), Insn::Goal], 0, 0, vec![]);
        let got = exec(&re, text, off, fwd);
        let fits = if fwd { off + 15 <= 16 } else { off >= 15 };
        let base = if fwd { off } else { off.wrapping_sub(15) };
        let mut eq = fits;
        let mut i = 0;
        while i < 15 {
            if fits && b[base + i] != lit[i] { eq = false; }
            i += 1;
        }
        assert!(got == if eq { Some(if fwd { off + 15 } else { off - 15 }) } else { None });
        kani::cover!(got.is_some() && fwd);
        kani::cover!(got.is_some() && !fwd);
        kani::cover!(got.is_none() && fits);
    }

    // @obligation name=e2_bt_byteseq16 props=C01,C02,C06 fn=classicalbacktrack::MatchAttempter::try_at_pos,cursor::try_match_lit,indexing::Utf8Input::match_bytes kind=bounded bound="ASCII haystack of 17 symbolic bytes, every offset, both directions; operand: 16 symbolic bytes" min_checks=1000 w=2 timeout=900
    // [ByteSeq16(bytes), Goal]: forward, succeeds iff the next 16 bytes equal the operand and ends 16 bytes later;
    // backward, the previous 16 bytes, ending 16 bytes earlier; fails when fewer than 16 bytes remain.
    #[kani::proof]
    #[kani::unwind(19)]
    #[kani::stub(MatchAttempter::run_lookaround, no_lookaround)]
    #[kani::stub(MatchAttempter::run_scm_loop, no_scm_loop)]
    #[kani::stub(MatchAttempter::run_loop, no_run_loop)]
    fn e2_bt_byteseq16() {
        let b: [u8; 17] = kani::any();
        let mut i = 0;
        while i < 17 { kani::assume(b[i] < 128); i += 1; }
        let text = unsafe { core::str::from_utf8_unchecked(&b) };
        let lit: [u8; 16] = kani::any();
        let off: usize = kani::any();
        kani::assume(off <= 17);
        let fwd: bool = kani::any();
        let re = mk(vec![Insn::ByteSeq16(lit), Insn::Goal], 0, 0, vec![]);
        let got = exec(&re, text, off, fwd);
        let fits = if fwd { off + 16 <= 17 } else { off >= 16 };
        let base = if fwd { off } else { off.wrapping_sub(16) };
        let mut eq = fits;
        let mut i = 0;
        while i < 16 {
            if fits && b[base + i] != lit[i] { eq = false; }
            i += 1;
        }
        assert!(got == if eq { Some(if fwd { off + 16 } else { off - 16 }) } else { None });
        kani::cover!(got.is_some() && fwd);
        kani::cover!(got.is_some() && !fwd);
        kani::cover!(got.is_none() && fits);
    }

    // =================================== E3: undo discipline ===================================
    // Function-level postcondition of try_at_pos: `None` is returned only with State equal to its value at entry
    // and the backtrack stack back to [Exhausted]. With the one-instruction programs below, restoration can only come
    // from the undo records the instruction itself pushed.

    // @obligation name=e3_bt_end_capture_group props=C01,C02 fn=classicalbacktrack::MatchAttempter::try_at_pos kind=bounded bound="program [EndCaptureGroup(0), JustFail]; symbolic initial group; 1-byte haystack; both directions" min_checks=1000 w=2 timeout=900
    // Undo discipline for EndCaptureGroup: when the continuation fails, the group's bounds are what they were before
    // the instruction ran (a later alternative must not see the abandoned path's capture).
    #[kani::proof]
    #[kani::unwind(4)]
    #[kani::stub(MatchAttempter::run_lookaround, no_lookaround)]
    #[kani::stub(MatchAttempter::run_scm_loop, no_scm_loop)]
    #[kani::stub(MatchAttempter::run_loop, no_run_loop)]
    #[kani::stub(MatchAttempter::try_backtrack, spec_backtrack)]
    fn e3_bt_end_capture_group() {
        let re = mk(vec![Insn::EndCaptureGroup(0), Insn::JustFail], 0, 1, vec![]);
        let input = Utf8Input::new("a", false);
        let mut m = MatchAttempter::<Utf8Input>::new(&re, input.left_end());
        let g0 = GroupData { start: any_opt_pos(&input, 1), end: any_opt_pos(&input, 1) };
        let fwd: bool = kani::any();
        kani::assume(if fwd { g0.start.is_some() } else { g0.end.is_some() });
        m.s.groups[0] = g0;
        let p: usize = kani::any();
        kani::assume(p <= 1);
        let pos = input.left_end() + p;
        let r = if fwd { m.try_at_pos(input, 0, pos, Forward::new()) } else { m.try_at_pos(input, 0, pos, Backward::new()) };
        assert!(r.is_none());
        assert!(m.bts.len() == 1);
        assert!(m.s.groups[0].start == g0.start, "EndCaptureGroup: group start restored on failure");
        assert!(m.s.groups[0].end == g0.end, "EndCaptureGroup: group end restored on failure");
        kani::cover!(g0.end.is_some() && fwd);
    }

    fn e3_begin_reset_body(reset: bool) {
        let re = mk(vec![if reset { Insn::ResetCaptureGroup(0) } else { Insn::BeginCaptureGroup(0) }, Insn::JustFail], 0, 1, vec![]);
        let input = Utf8Input::new("a", false);
        let mut m = MatchAttempter::<Utf8Input>::new(&re, input.left_end());
        let g0 = GroupData { start: any_opt_pos(&input, 1), end: any_opt_pos(&input, 1) };
        let fwd: bool = kani::any();
        if !reset { kani::assume(if fwd { g0.end.is_none() } else { g0.start.is_none() }); }
        m.s.groups[0] = g0;
        let pos = input.left_end();
        let r = if fwd { m.try_at_pos(input, 0, pos, Forward::new()) } else { m.try_at_pos(input, 0, pos, Backward::new()) };
        assert!(r.is_none());
        assert!(m.bts.len() == 1);
        assert!(m.s.groups[0].start == g0.start && m.s.groups[0].end == g0.end);
        kani::cover!(g0.start.is_some());
        kani::cover!(!fwd);
    }

    // @obligation name=e3_bt_begin_capture_group props=C01,C02 fn=classicalbacktrack::MatchAttempter::try_at_pos kind=bounded bound="try_backtrack replaced by its contract (e4_bt_records_data); program [BeginCaptureGroup(0), JustFail]; symbolic initial group; both directions" min_checks=1000 w=2 timeout=900
    // Undo discipline for BeginCaptureGroup: when the continuation fails the group is what it was before.
    #[kani::proof]
    #[kani::unwind(4)]
    #[kani::stub(MatchAttempter::run_lookaround, no_lookaround)]
    #[kani::stub(MatchAttempter::run_scm_loop, no_scm_loop)]
    #[kani::stub(MatchAttempter::run_loop, no_run_loop)]
    #[kani::stub(MatchAttempter::try_backtrack, spec_backtrack)]
    fn e3_bt_begin_capture_group() {
        e3_begin_reset_body(false);
    }

    // @obligation name=e3_bt_reset_capture_group props=C01,C02 fn=classicalbacktrack::MatchAttempter::try_at_pos kind=bounded bound="try_backtrack replaced by its contract (e4_bt_records_data); program [ResetCaptureGroup(0), JustFail]; symbolic initial group; both directions" min_checks=1000 w=2 timeout=900
    // Undo discipline for ResetCaptureGroup (per-iteration capture reset): when the continuation fails the group is restored.
    #[kani::proof]
    #[kani::unwind(4)]
    #[kani::stub(MatchAttempter::run_lookaround, no_lookaround)]
    #[kani::stub(MatchAttempter::run_scm_loop, no_scm_loop)]
    #[kani::stub(MatchAttempter::run_loop, no_run_loop)]
    #[kani::stub(MatchAttempter::try_backtrack, spec_backtrack)]
    fn e3_bt_reset_capture_group() {
        e3_begin_reset_body(true);
    }

    static mut SNAP_ITERS: usize = 0;
    static mut SNAP_BTS_LEN: usize = 0;
    static mut SNAP_CALLED: bool = false;
    static mut SNAP_REC_OK: bool = false;
    fn snap_run_loop<'a, Input: InputIndexer>(
        this: &mut MatchAttempter<'a, Input>, loop_fields: &'a LoopFields, _pos: Input::Position, _ip: IP,
    ) -> Option<IP> where 'a: 'a {
        unsafe {
            SNAP_CALLED = true;
            SNAP_ITERS = this.s.loops[loop_fields.loop_id as usize].iters;
            SNAP_BTS_LEN = this.bts.len();
        }
        None
    }

    // @obligation name=e3a_bt_enter_loop props=C02,C05,C01 fn=classicalbacktrack::MatchAttempter::try_at_pos kind=complete domain="every min/max/greedy, every initial iters; arm-level obligation with run_loop replaced by a recorder" min_checks=1000 w=2 timeout=900
    // Undo discipline for the EnterLoop arm: at the call to run_loop every loop-data slot the arm has written is covered
    // by an undo record, and after the (failing) continuation the loop counter is what it was before the instruction.
    #[kani::proof]
    #[kani::unwind(4)]
    #[kani::stub(MatchAttempter::run_lookaround, no_lookaround)]
    #[kani::stub(MatchAttempter::run_scm_loop, no_scm_loop)]
    #[kani::stub(MatchAttempter::run_loop, snap_run_loop)]
    #[kani::stub(MatchAttempter::try_backtrack, spec_backtrack)]
    fn e3a_bt_enter_loop() {
        let min: usize = kani::any();
        let max: usize = kani::any();
        let greedy: bool = kani::any();
        let re = mk(
            vec![Insn::EnterLoop(LoopFields { loop_id: 0, min_iters: min, max_iters: max, greedy, exit: 1 }), Insn::JustFail],
            1, 0, vec![],
        );
        let input = Utf8Input::new("a", false);
        let mut m = MatchAttempter::<Utf8Input>::new(&re, input.left_end());
        let iters: usize = kani::any();
        m.s.loops[0] = LoopData { iters, entry: input.left_end() };
        let r = m.try_at_pos(input, 0, input.left_end(), Forward::new());
        assert!(r.is_none());
        unsafe {
            assert!(SNAP_CALLED);
            // entering from outside: run_loop must observe a zero counter
            assert!(SNAP_ITERS == 0, "EnterLoop: loop counter is reset on entry from outside");
        }
        assert!(m.bts.len() == 1);
        assert!(m.s.loops[0].iters == iters, "EnterLoop: loop counter restored when the loop is backtracked out of");
        kani::cover!(iters != 0);
    }

    // =================================== E4: backtrack records ===================================

    // @obligation name=e4_bt_records_data props=C01,C02,C05:t fn=classicalbacktrack::MatchAttempter::try_backtrack,classicalbacktrack::MatchAttempter::pop_backtrack kind=bounded bound="stack [Exhausted, SetPosition, SetLoopData{id 0}, SetCaptureGroup{id 1}] with symbolic payloads (2 loops, 2 groups)" features=default features_thorough=prohibit-unsafe min_checks=500 w=3 timeout=1200
    // try_backtrack pops data records restoring exactly the slot they name (other slots untouched), stops at the first
    // SetPosition restoring (ip,pos), and returns false on Exhausted without popping it; the stack never underflows.
    #[kani::proof]
    #[kani::unwind(6)]
    fn e4_bt_records_data() {
        let re = mk(vec![Insn::Goal], 2, 2, vec![]);
        let input = Utf8Input::new("ab", false);
        let mut m = MatchAttempter::<Utf8Input>::new(&re, input.left_end());
        let gd = GroupData { start: any_opt_pos(&input, 2), end: any_opt_pos(&input, 2) };
        let e: usize = kani::any();
        kani::assume(e <= 2);
        let ld = LoopData { iters: kani::any(), entry: input.left_end() + e };
        let (gid, lid): (u16, u16) = (1, 0);
        let sp_ip: usize = kani::any();
        let sp_off: usize = kani::any();
        kani::assume(sp_off <= 2);
        let og = [m.s.groups[0], m.s.groups[1]];
        let ol = [m.s.loops[0], m.s.loops[1]];
        m.bts.push(BacktrackInsn::SetPosition { ip: sp_ip, pos: input.left_end() + sp_off });
        m.bts.push(BacktrackInsn::SetLoopData { id: lid, data: ld });
        m.bts.push(BacktrackInsn::SetCaptureGroup { id: gid, data: gd });
        let mut ip: IP = kani::any();
        let mut pos = input.left_end();
        let ok = m.try_backtrack(&input, &mut ip, &mut pos, Forward::new());
        assert!(ok);
        assert!(ip == sp_ip && pos == input.left_end() + sp_off);
        assert!(m.bts.len() == 1);
        let g = m.s.groups[gid as usize];
        assert!(g.start == gd.start && g.end == gd.end);
        let other = m.s.groups[1 - gid as usize];
        assert!(other.start == og[1 - gid as usize].start && other.end == og[1 - gid as usize].end);
        assert!(m.s.loops[lid as usize].iters == ld.iters && m.s.loops[lid as usize].entry == ld.entry);
        assert!(m.s.loops[1 - lid as usize].iters == ol[1 - lid as usize].iters);
        kani::cover!(gd.start.is_some());
    }

    // @obligation name=e4_bt_records_exhausted props=C01,C02,C05:t fn=classicalbacktrack::MatchAttempter::try_backtrack kind=bounded bound="stacks [Exhausted] and [Exhausted, SetCaptureGroup]" min_checks=300 w=2 timeout=900
    // On the backstop record try_backtrack returns false without popping it or touching ip/pos (the stack never underflows);
    // data records above it are applied first.
    #[kani::proof]
    #[kani::unwind(4)]
    fn e4_bt_records_exhausted() {
        let re = mk(vec![Insn::Goal], 0, 1, vec![]);
        let input = Utf8Input::new("ab", false);
        let mut m = MatchAttempter::<Utf8Input>::new(&re, input.left_end());
        let gd = GroupData { start: any_opt_pos(&input, 2), end: any_opt_pos(&input, 2) };
        let with_rec: bool = kani::any();
        if with_rec { m.bts.push(BacktrackInsn::SetCaptureGroup { id: 0, data: gd }); }
        let mut ip: IP = 41;
        let mut pos = input.left_end() + 1;
        let ok = m.try_backtrack(&input, &mut ip, &mut pos, Forward::new());
        assert!(!ok && m.bts.len() == 1 && ip == 41 && pos == input.left_end() + 1);
        if with_rec { assert!(m.s.groups[0].start == gd.start && m.s.groups[0].end == gd.end); }
        kani::cover!(with_rec);
    }

    // @obligation name=e4_bt_records_loop1char props=C01,C02,C05 fn=classicalbacktrack::MatchAttempter::try_backtrack kind=bounded bound="2-char haystack (every pair of chars); record min/max at any boundaries in travel order; both directions; greedy and lazy" min_checks=500 w=2 timeout=900
    // GreedyLoop1Char gives back exactly one character per backtrack (max moves one character toward min, pos = new max,
    // ip = continuation) and is discarded when max == min; NonGreedyLoop1Char takes exactly one more character
    // (min moves toward max). Strictly decreasing distance => the record is consumed after finitely many steps.
    #[kani::proof]
    #[kani::unwind(5)]
    fn e4_bt_records_loop1char() {
        let h = Hay::any();
        let input = Utf8Input::new(h.text(), false);
        let re = mk(vec![Insn::Goal], 0, 0, vec![]);
        let mut m = MatchAttempter::<Utf8Input>::new(&re, input.left_end());
        let kmin = Hay::any_boundary();
        let kmax = Hay::any_boundary();
        let fwd: bool = kani::any();
        let greedy: bool = kani::any();
        kani::assume(if fwd { kmin <= kmax } else { kmin >= kmax });
        let cont: IP = kani::any();
        let (pmin, pmax) = (input.left_end() + h.off(kmin), input.left_end() + h.off(kmax));
        m.bts.push(if greedy {
            BacktrackInsn::GreedyLoop1Char { continuation: cont, min: pmin, max: pmax }
        } else {
            BacktrackInsn::NonGreedyLoop1Char { continuation: cont, min: pmin, max: pmax }
        });
        let mut ip: IP = 99;
        let mut pos = input.left_end();
        let ok = if fwd {
            m.try_backtrack(&input, &mut ip, &mut pos, Forward::new())
        } else {
            m.try_backtrack(&input, &mut ip, &mut pos, Backward::new())
        };
        if kmin == kmax {
            assert!(!ok && m.bts.len() == 1);
        } else {
            assert!(ok && ip == cont && m.bts.len() == 2);
            // one character given back (greedy) / taken (lazy)
            let exp_k = if greedy {
                if fwd { kmax - 1 } else { kmax + 1 }
            } else if fwd { kmin + 1 } else { kmin - 1 };
            assert!(input.pos_to_offset(pos) == h.off(exp_k));
            match &m.bts[1] {
                BacktrackInsn::GreedyLoop1Char { continuation, min, max } => {
                    assert!(greedy && *continuation == cont && *min == pmin && *max == pos);
                }
                BacktrackInsn::NonGreedyLoop1Char { continuation, min, max } => {
                    assert!(!greedy && *continuation == cont && *min == pos && *max == pmax);
                }
                _ => assert!(false),
            }
        }
        kani::cover!(ok && greedy && !fwd);
        kani::cover!(ok && !greedy && fwd && h.n1 == 4);
    }

    // =================================== E5: single-character loops ===================================

    // @obligation name=e5_bt_scm_loop props=C01,C02,C03:t,C05 fn=classicalbacktrack::MatchAttempter::run_scm_loop,classicalbacktrack::MatchAttempter::run_scm_loop_impl,classicalbacktrack::MatchAttempter::compute_max_pos,classicalbacktrack::MatchAttempter::with_scm_loop_impl,classicalbacktrack::MatchAttempter::with_scm_compute_max kind=bounded bound="3-byte ASCII haystack (symbolic), start offset 0, body ByteSeq1([x]); min<=max with max<=3 or max=usize::MAX; greedy and lazy" min_checks=500 w=3 timeout=1200
    // run_scm_loop: fails iff fewer than min characters match; otherwise continues at ip+2 with pos after the longest run
    // <= max (greedy) or after exactly min (lazy), and pushes one Loop1Char record [min_pos,max_pos] iff they differ.
    #[kani::proof]
    #[kani::unwind(6)]
    fn e5_bt_scm_loop() {
        let b: [u8; 3] = kani::any();
        kani::assume(b[0] < 128 && b[1] < 128 && b[2] < 128);
        let text = unsafe { core::str::from_utf8_unchecked(&b) };
        let input = Utf8Input::new(text, false);
        let x: u8 = kani::any();
        let min: usize = kani::any();
        let max: usize = kani::any();
        kani::assume(min <= max && min <= 3 && (max <= 3 || max == usize::MAX));
        let greedy: bool = kani::any();
        let re = mk(vec![Insn::Loop1CharBody { min_iters: min, max_iters: max, greedy }, Insn::ByteSeq1([x]), Insn::Goal], 0, 0, vec![]);
        let mut m = MatchAttempter::<Utf8Input>::new(&re, input.left_end());
        let mut pos = input.left_end();
        let r = m.run_scm_loop(&input, Forward::new(), &mut pos, min, max, 0, greedy);
        // spec: run = length of the longest prefix of x's
        let run = if b[0] != x { 0 } else if b[1] != x { 1 } else if b[2] != x { 2 } else { 3 };
        if run < min {
            assert!(r.is_none());
            assert!(m.bts.len() == 1);
        } else {
            let hi = if run < max { run } else { max };
            assert!(r == Some(2));
            assert!(input.pos_to_offset(pos) == if greedy { hi } else { min });
            if hi != min {
                assert!(m.bts.len() == 2);
                match &m.bts[1] {
                    BacktrackInsn::GreedyLoop1Char { continuation, min: a, max: z } => {
                        assert!(greedy && *continuation == 2 && input.pos_to_offset(*a) == min && input.pos_to_offset(*z) == hi);
                    }
                    BacktrackInsn::NonGreedyLoop1Char { continuation, min: a, max: z } => {
                        assert!(!greedy && *continuation == 2 && input.pos_to_offset(*a) == min && input.pos_to_offset(*z) == hi);
                    }
                    _ => assert!(false),
                }
            } else {
                assert!(m.bts.len() == 1);
            }
        }
        kani::cover!(r.is_some() && run == 3 && max == usize::MAX && !greedy);
        kani::cover!(r.is_none());
    }

    fn scm_kinds_body(which: u8) {
        let h = Hay::any_ascii();
        let input = Utf8Input::new(h.text(), false);
        let c: u32 = kani::any();
        let s: [u8; 4] = kani::any();
        let (cps, _ivs, _n) = crate::matchers::__verif::any_cps(1);
        let body = match which {
            0 => Insn::Char(c),
            1 => Insn::CharSet([c, s[0] as u32, s[1] as u32, s[2] as u32]),
            2 => Insn::Bracket(0),
            3 => Insn::AsciiBracket(crate::bytesearch::AsciiBitmap(kani::any())),
            4 => Insn::MatchAnyExceptLineTerminator,
            5 => Insn::ByteSet2(crate::bytesearch::ByteArraySet([s[0], s[1]])),
            6 => Insn::ByteSet4(crate::bytesearch::ByteArraySet(s)),
            _ => Insn::ByteSeq1([s[0]]),
        };
        let min: usize = kani::any();
        let max: usize = kani::any();
        kani::assume(min <= 1 && max >= 1 && max <= 2 && min <= max);
        let re = mk(vec![Insn::Loop1CharBody { min_iters: min, max_iters: max, greedy: true }, body, Insn::Goal], 0, 0,
                    vec![BracketContents { invert: false, cps }]);
        let r = MatchAttempter::<Utf8Input>::with_scm_loop_impl(&re, &input, input.left_end(), min, max, Forward::new(), 0);
        if min == 0 {
            assert!(r.is_some(), "a loop with min == 0 never fails");
        }
        if let Some((a, z)) = r {
            assert!(input.pos_to_offset(a) == min && input.pos_to_offset(z) >= min && input.pos_to_offset(z) <= max);
        }
        kani::cover!(r.is_some());
        kani::cover!(r.is_none());
    }

    fn scm_kinds_body_ascii(which: u8) {
        let h = Hay::any_ascii();
        let ainput = AsciiInput::new(h.text(), false);
        let c: u32 = kani::any();
        let s: [u8; 4] = kani::any();
        let (cps, _ivs, _n) = crate::matchers::__verif::any_cps(1);
        let body = match which {
            0 => Insn::Char(c),
            1 => Insn::CharSet([c, s[0] as u32, s[1] as u32, s[2] as u32]),
            _ => Insn::Bracket(0),
        };
        let min: usize = kani::any();
        kani::assume(min <= 1);
        let re = mk(vec![Insn::Loop1CharBody { min_iters: min, max_iters: 2, greedy: true }, body, Insn::Goal], 0, 0,
                    vec![BracketContents { invert: false, cps }]);
        let r = MatchAttempter::<AsciiInput>::with_scm_loop_impl(&re, &ainput, ainput.left_end(), min, 2, Forward::new(), 0);
        if min == 0 {
            assert!(r.is_some(), "a loop with min == 0 never fails (ASCII input), whatever the operand");
        }
        let rm = MatchAttempter::<AsciiInput>::with_scm_compute_max(&re, &ainput, ainput.left_end(), 2, Forward::new(), 0);
        assert!(rm.is_some(), "computing the maximal run never fails (ASCII input)");
        kani::cover!(c > 255 && which == 0);
    }

    // @obligation name=e5_bt_scm_body_char_ascii props=C03,C13 fn=classicalbacktrack::MatchAttempter::with_scm_loop_impl,classicalbacktrack::MatchAttempter::with_scm_compute_max kind=bounded bound="2-char ASCII haystack, ASCII input; body Char(c) for every u32 c; min in {0,1}, max 2" min_checks=300 w=2 timeout=900
    // ASCII input, body Char(c): a loop with min == 0 never fails and computing the maximal run never fails, even when c is
    // not representable as a byte (it then matches zero times).
    #[kani::proof]
    #[kani::unwind(6)]
    fn e5_bt_scm_body_char_ascii() {
        scm_kinds_body_ascii(0);
    }

    // @obligation name=e5_bt_scm_body_char props=C01,C03,C13 fn=classicalbacktrack::MatchAttempter::with_scm_loop_impl,classicalbacktrack::MatchAttempter::with_scm_compute_max kind=bounded bound="2-char ASCII haystack; body kind char with symbolic operand (a Char operand ranges over every u32); min in {0,1}, max in {1,2}; UTF-8 and ASCII inputs" min_checks=300 w=2 timeout=900
    // with_scm_loop_impl/with_scm_compute_max for body kind char: Some((pos_after_min, pos_after_run)); a loop with min == 0
    // never fails whatever the operand (a Char the input's element type cannot represent matches zero times), computing the
    // maximal run never fails, and the ASCII input agrees with the UTF-8 input.
    #[kani::proof]
    #[kani::unwind(6)]
    fn e5_bt_scm_body_char() {
        scm_kinds_body(0);
    }

    // @obligation name=e5_bt_scm_body_charset props=C01:t,C03:t,C13:t fn=classicalbacktrack::MatchAttempter::with_scm_loop_impl,classicalbacktrack::MatchAttempter::with_scm_compute_max kind=bounded bound="2-char ASCII haystack; body kind charset with symbolic operand (a Char operand ranges over every u32); min in {0,1}, max in {1,2}; UTF-8 and ASCII inputs" min_checks=300 w=2 timeout=900
    // with_scm_loop_impl/with_scm_compute_max for body kind charset: Some((pos_after_min, pos_after_run)); a loop with min == 0
    // never fails whatever the operand (a Char the input's element type cannot represent matches zero times), computing the
    // maximal run never fails, and the ASCII input agrees with the UTF-8 input.
    #[kani::proof]
    #[kani::unwind(6)]
    fn e5_bt_scm_body_charset() {
        scm_kinds_body(1);
    }

    // @obligation name=e5_bt_scm_body_bracket props=C01:t,C03,C13:t fn=classicalbacktrack::MatchAttempter::with_scm_loop_impl,classicalbacktrack::MatchAttempter::with_scm_compute_max kind=bounded bound="2-char ASCII haystack; body kind bracket with symbolic operand (a Char operand ranges over every u32); min in {0,1}, max in {1,2}; UTF-8 and ASCII inputs" min_checks=300 w=2 timeout=900
    // with_scm_loop_impl/with_scm_compute_max for body kind bracket: Some((pos_after_min, pos_after_run)); a loop with min == 0
    // never fails whatever the operand (a Char the input's element type cannot represent matches zero times), computing the
    // maximal run never fails, and the ASCII input agrees with the UTF-8 input.
    #[kani::proof]
    #[kani::unwind(6)]
    fn e5_bt_scm_body_bracket() {
        scm_kinds_body(2);
    }

    // @obligation name=e5_bt_scm_body_ascii_bracket props=C01:t,C03:t,C13:t fn=classicalbacktrack::MatchAttempter::with_scm_loop_impl,classicalbacktrack::MatchAttempter::with_scm_compute_max kind=bounded bound="2-char ASCII haystack; body kind ascii_bracket with symbolic operand (a Char operand ranges over every u32); min in {0,1}, max in {1,2}; UTF-8 and ASCII inputs" min_checks=300 w=2 timeout=900
    // with_scm_loop_impl/with_scm_compute_max for body kind ascii_bracket: Some((pos_after_min, pos_after_run)); a loop with min == 0
    // never fails whatever the operand (a Char the input's element type cannot represent matches zero times), computing the
    // maximal run never fails, and the ASCII input agrees with the UTF-8 input.
    #[kani::proof]
    #[kani::unwind(6)]
    fn e5_bt_scm_body_ascii_bracket() {
        scm_kinds_body(3);
    }

    // @obligation name=e5_bt_scm_body_match_any props=C01:t,C03:t,C13:t fn=classicalbacktrack::MatchAttempter::with_scm_loop_impl,classicalbacktrack::MatchAttempter::with_scm_compute_max kind=bounded bound="2-char ASCII haystack; body kind match_any with symbolic operand (a Char operand ranges over every u32); min in {0,1}, max in {1,2}; UTF-8 and ASCII inputs" min_checks=300 w=2 timeout=900
    // with_scm_loop_impl/with_scm_compute_max for body kind match_any: Some((pos_after_min, pos_after_run)); a loop with min == 0
    // never fails whatever the operand (a Char the input's element type cannot represent matches zero times), computing the
    // maximal run never fails, and the ASCII input agrees with the UTF-8 input.
    #[kani::proof]
    #[kani::unwind(6)]
    fn e5_bt_scm_body_match_any() {
        scm_kinds_body(4);
    }

    // @obligation name=e5_bt_scm_body_byteset2 props=C01:t,C03:t,C13:t fn=classicalbacktrack::MatchAttempter::with_scm_loop_impl,classicalbacktrack::MatchAttempter::with_scm_compute_max kind=bounded bound="2-char ASCII haystack; body kind byteset2 with symbolic operand (a Char operand ranges over every u32); min in {0,1}, max in {1,2}; UTF-8 and ASCII inputs" min_checks=300 w=2 timeout=900
    // with_scm_loop_impl/with_scm_compute_max for body kind byteset2: Some((pos_after_min, pos_after_run)); a loop with min == 0
    // never fails whatever the operand (a Char the input's element type cannot represent matches zero times), computing the
    // maximal run never fails, and the ASCII input agrees with the UTF-8 input.
    #[kani::proof]
    #[kani::unwind(6)]
    fn e5_bt_scm_body_byteset2() {
        scm_kinds_body(5);
    }

    // @obligation name=e5_bt_scm_body_byteset4 props=C01:t,C03:t,C13:t fn=classicalbacktrack::MatchAttempter::with_scm_loop_impl,classicalbacktrack::MatchAttempter::with_scm_compute_max kind=bounded bound="2-char ASCII haystack; body kind byteset4 with symbolic operand (a Char operand ranges over every u32); min in {0,1}, max in {1,2}; UTF-8 and ASCII inputs" min_checks=300 w=2 timeout=900
    // with_scm_loop_impl/with_scm_compute_max for body kind byteset4: Some((pos_after_min, pos_after_run)); a loop with min == 0
    // never fails whatever the operand (a Char the input's element type cannot represent matches zero times), computing the
    // maximal run never fails, and the ASCII input agrees with the UTF-8 input.
    #[kani::proof]
    #[kani::unwind(6)]
    fn e5_bt_scm_body_byteset4() {
        scm_kinds_body(6);
    }

    // @obligation name=e5_bt_scm_body_byteseq1 props=C01:t,C03:t,C13:t fn=classicalbacktrack::MatchAttempter::with_scm_loop_impl,classicalbacktrack::MatchAttempter::with_scm_compute_max kind=bounded bound="2-char ASCII haystack; body kind byteseq1 with symbolic operand (a Char operand ranges over every u32); min in {0,1}, max in {1,2}; UTF-8 and ASCII inputs" min_checks=300 w=2 timeout=900
    // with_scm_loop_impl/with_scm_compute_max for body kind byteseq1: Some((pos_after_min, pos_after_run)); a loop with min == 0
    // never fails whatever the operand (a Char the input's element type cannot represent matches zero times), computing the
    // maximal run never fails, and the ASCII input agrees with the UTF-8 input.
    #[kani::proof]
    #[kani::unwind(6)]
    fn e5_bt_scm_body_byteseq1() {
        scm_kinds_body(7);
    }

    // =================================== E6: lookaround ===================================

    static mut LA_RESULT: bool = false;
    static mut LA_WRITE: bool = false;
    fn oracle_inner_attempt<'a, Input: InputIndexer, Dir: Direction>(
        this: &mut MatchAttempter<'a, Input>, _inp: Input, _ip: IP, pos: Input::Position, _dir: Dir,
    ) -> Option<Input::Position> where 'a: 'a {
        // contract of try_at_pos used here: stack is [Exhausted] at entry and exit; on success the groups of the
        // lookaround body (1..3 in the harness) may hold new values; on failure State is as at entry (E3).
        assert!(this.bts.len() == 1);
        unsafe {
            if LA_RESULT {
                if LA_WRITE {
                    this.s.groups[1] = GroupData { start: Some(pos), end: Some(pos) };
                    this.s.groups[2] = GroupData { start: Some(pos), end: None };
                }
                Some(pos)
            } else {
                None
            }
        }
    }

    // @obligation name=e6_bt_lookaround props= fn=classicalbacktrack::MatchAttempter::run_lookaround kind=bounded bound="4 groups, body owns groups 1..3; inner attempt replaced by an oracle meeting try_at_pos's contract; symbolic prior groups and prior stack depth 1..2" min_checks=500 w=4 timeout=2400
    // run_lookaround returns matched != negate and never moves the caller's position; if it returns with the body's
    // captures kept (positive, matched) then backtracking past it restores the previous values of exactly those
    // groups; otherwise (negative or failed) the groups and the caller's stack are exactly as before.
    #[kani::proof]
    #[kani::unwind(6)]
    #[kani::stub(MatchAttempter::try_at_pos, oracle_inner_attempt)]
    fn e6_bt_lookaround() {
        let re = mk(vec![Insn::Goal], 0, 4, vec![]);
        let input = Utf8Input::new("ab", false);
        let mut m = MatchAttempter::<Utf8Input>::new(&re, input.left_end());
        let negate: bool = kani::any();
        let inner: bool = kani::any();
        let wr: bool = kani::any();
        unsafe { LA_RESULT = inner; LA_WRITE = wr; }
        let old = [
            GroupData { start: any_opt_pos(&input, 2), end: any_opt_pos(&input, 2) },
            GroupData { start: any_opt_pos(&input, 2), end: any_opt_pos(&input, 2) },
            GroupData { start: any_opt_pos(&input, 2), end: any_opt_pos(&input, 2) },
            GroupData { start: any_opt_pos(&input, 2), end: any_opt_pos(&input, 2) },
        ];
        for i in 0..4 { m.s.groups[i] = old[i]; }
        // the caller may already have a choice point
        let prior: bool = kani::any();
        if prior { m.bts.push(BacktrackInsn::SetPosition { ip: 5, pos: input.left_end() + 1 }); }
        let depth = m.bts.len();
        let pos = input.left_end() + 1;
        let r = m.run_lookaround::<Forward>(&input, 1, pos, 1, 3, negate);
        assert!(r == (inner != negate));
        // groups outside the body are never touched
        assert!(m.s.groups[0].start == old[0].start && m.s.groups[0].end == old[0].end);
        assert!(m.s.groups[3].start == old[3].start && m.s.groups[3].end == old[3].end);
        if inner && !negate {
            // captures kept ...
            if wr { assert!(m.s.groups[1].start == Some(pos) && m.s.groups[2].end.is_none()); }
            // ... and undone by backtracking down to the caller's records
            let mut ip: IP = 0;
            let mut p2 = pos;
            let resumed = m.try_backtrack(&input, &mut ip, &mut p2, Forward::new());
            assert!(resumed == prior);
            assert!(m.bts.len() == 1);
        } else {
            assert!(m.bts.len() == depth);
        }
        if !(inner && !negate) || true {
            // after undoing (or when nothing was kept) the body's groups are the old ones
            for i in 1..3 {
                assert!(m.s.groups[i].start == old[i].start && m.s.groups[i].end == old[i].end);
            }
        }
        kani::cover!(inner && !negate && wr && prior);
        kani::cover!(inner && negate && wr);
    }

    static mut LA2_RESULT: bool = false;
    fn oracle_inner_attempt2<'a, Input: InputIndexer, Dir: Direction>(
        this: &mut MatchAttempter<'a, Input>, _inp: Input, _ip: IP, pos: Input::Position, _dir: Dir,
    ) -> Option<Input::Position> where 'a: 'a {
        assert!(this.bts.len() == 1);
        unsafe {
            if LA2_RESULT {
                this.s.groups[1] = GroupData { start: Some(pos), end: Some(pos) };
                Some(pos)
            } else {
                None
            }
        }
    }

    fn e6_small_body(negate: bool, inner: bool) {
        let re = mk(vec![Insn::Goal], 0, 2, vec![]);
        let input = Utf8Input::new("ab", false);
        let mut m = MatchAttempter::<Utf8Input>::new(&re, input.left_end());
        unsafe { LA2_RESULT = inner; }
        let old = [
            GroupData { start: any_opt_pos(&input, 2), end: any_opt_pos(&input, 2) },
            GroupData { start: any_opt_pos(&input, 2), end: any_opt_pos(&input, 2) },
        ];
        m.s.groups[0] = old[0];
        m.s.groups[1] = old[1];
        let pos = input.left_end() + 1;
        let r = m.run_lookaround::<Forward>(&input, 1, pos, 1, 2, negate);
        assert!(r == (inner != negate), "lookaround succeeds iff (body matched) != negate");
        assert!(m.s.groups[0].start == old[0].start && m.s.groups[0].end == old[0].end, "groups outside the body untouched");
        if inner && !negate {
            assert!(m.s.groups[1].start == Some(pos), "a positive lookaround keeps the body's captures");
            let mut ip: IP = 0;
            let mut p2 = pos;
            let resumed = m.try_backtrack(&input, &mut ip, &mut p2, Forward::new());
            assert!(!resumed && m.bts.len() == 1);
        } else {
            assert!(m.bts.len() == 1, "no record is left behind");
        }
        assert!(m.s.groups[1].start == old[1].start && m.s.groups[1].end == old[1].end, "captures of the body are restored (after backtracking past a kept positive lookaround, or immediately otherwise)");
        core::mem::forget(m);
        kani::cover!(true);
    }

    // @obligation name=e6_bt_lookaround_positive_match props=C01,C02 fn=classicalbacktrack::MatchAttempter::run_lookaround kind=bounded bound="2 groups, body owns group 1; inner attempt = oracle meeting try_at_pos's contract (succeeds, writes group 1); symbolic prior groups" min_checks=300 w=3 timeout=1500
    // Positive lookaround whose body matches: returns true, keeps the body's captures, and backtracking past it restores the
    // previous value of exactly those groups.
    #[kani::proof]
    #[kani::unwind(5)]
    #[kani::stub(MatchAttempter::try_at_pos, oracle_inner_attempt2)]
    fn e6_bt_lookaround_positive_match() {
        e6_small_body(false, true);
    }

    // @obligation name=e6_bt_lookaround_negative_match props=C01,C02 fn=classicalbacktrack::MatchAttempter::run_lookaround kind=bounded bound="2 groups, body owns group 1; inner attempt succeeds and writes group 1; negate = true" min_checks=300 w=3 timeout=1500
    // Negative lookaround whose body matches: returns false and the body's captures are discarded at once (atomic, no effect).
    #[kani::proof]
    #[kani::unwind(5)]
    #[kani::stub(MatchAttempter::try_at_pos, oracle_inner_attempt2)]
    fn e6_bt_lookaround_negative_match() {
        e6_small_body(true, true);
    }

    // @obligation name=e6_bt_lookaround_body_fails props=C01,C02 fn=classicalbacktrack::MatchAttempter::run_lookaround kind=bounded bound="2 groups; inner attempt fails; negate symbolic" min_checks=300 w=3 timeout=1500
    // Body fails: a positive lookaround fails, a negative one succeeds; groups and stack are exactly as before.
    #[kani::proof]
    #[kani::unwind(5)]
    #[kani::stub(MatchAttempter::try_at_pos, oracle_inner_attempt2)]
    fn e6_bt_lookaround_body_fails() {
        e6_small_body(kani::any(), false);
    }

    // =================================== E9: match construction ===================================

    // @obligation name=e9_bt_successful_match props=C06,C16,C02:t fn=classicalbacktrack::BacktrackExecutor::successful_match kind=bounded bound="3 capture groups with symbolic bounds on a 3-byte haystack" min_checks=300 w=2 timeout=900
    // successful_match: captures has one slot per group, slot i = offsets of group i iff both bounds are set (else None),
    // range = start..end offsets, and afterwards every group is cleared (a later attempt starts clean).
    #[kani::proof]
    #[kani::unwind(6)]
    fn e9_bt_successful_match() {
        let re = mk(vec![Insn::Goal], 0, 3, vec![]);
        let input = Utf8Input::new("abc", false);
        let mut ex = BacktrackExecutor { input, matcher: MatchAttempter::new(&re, input.left_end()) };
        let gs = [
            GroupData { start: any_opt_pos(&input, 3), end: any_opt_pos(&input, 3) },
            GroupData { start: any_opt_pos(&input, 3), end: any_opt_pos(&input, 3) },
            GroupData { start: any_opt_pos(&input, 3), end: any_opt_pos(&input, 3) },
        ];
        for i in 0..3 { ex.matcher.s.groups[i] = gs[i]; }
        let a: usize = kani::any();
        let z: usize = kani::any();
        kani::assume(a <= z && z <= 3);
        let m = ex.successful_match(input.left_end() + a, input.left_end() + z);
        assert!(m.range == (a..z));
        assert!(m.captures.len() == 3);
        for i in 0..3 {
            match (gs[i].start, gs[i].end) {
                (Some(s), Some(e)) => assert!(m.captures[i] == Some(input.pos_to_offset(s)..input.pos_to_offset(e))),
                _ => assert!(m.captures[i].is_none()),
            }
            assert!(ex.matcher.s.groups[i].start.is_none() && ex.matcher.s.groups[i].end.is_none());
        }
        assert!(m.group_names.len() == 0);
        kani::cover!(m.captures[1].is_some() && m.captures[2].is_none());
    }

    // =================================== F: search drivers ===================================
    // The interpreter call is replaced by an oracle: an arbitrary deterministic table res[offset] -> Option<end>
    // meeting try_at_pos's contract (start <= end <= len, end on a boundary). What is proved about the drivers is
    // therefore independent of the pattern.

    pub(crate) static mut ORACLE: [Option<usize>; 5] = [None; 5];
    pub(crate) static mut LOG: [usize; 12] = [0; 12];
    pub(crate) static mut LOG_N: usize = 0;

    pub(crate) fn oracle_try_at_pos<'a, Input: InputIndexer, Dir: Direction>(
        _this: &mut MatchAttempter<'a, Input>, inp: Input, ip: IP, pos: Input::Position, _dir: Dir,
    ) -> Option<Input::Position> where 'a: 'a {
        assert!(ip == 0 && Dir::FORWARD);
        let off = inp.pos_to_offset(pos);
        unsafe {
            assert!(LOG_N < 12);
            LOG[LOG_N] = off;
            LOG_N += 1;
            match ORACLE[off] {
                Some(e) => Some(inp.left_end() + e),
                None => None,
            }
        }
    }

    /// Contract stub of successful_match for the driver obligations (its own contract is e9_bt_successful_match):
    /// the reported range is start..end as offsets. Built without heap allocation: Kani's free() model trips on the
    /// zero-length boxed slices a Match of a group-less regex carries.
    pub(crate) fn sm_stub<'r, Input: InputIndexer>(
        this: &mut BacktrackExecutor<'r, Input>, start: Input::Position, end: Input::Position,
    ) -> Match where 'r: 'r {
        Match {
            range: this.input.pos_to_offset(start)..this.input.pos_to_offset(end),
            captures: Vec::new(),
            group_names: Box::new([]),
        }
    }

    /// Concrete 3-char haystacks (the oracle makes the text irrelevant except for its char boundaries):
    /// "abc" (boundaries 0,1,2,3) or "a\u{e9}b" (4 bytes, boundaries 0,1,3,4). Returns (buf, len, is_boundary[]).
    fn driver_hay_of(two: bool) -> ([u8; 4], usize, [bool; 5]) {
        if two {
            ([b'a', 0xC3, 0xA9, b'b'], 4, [true, true, false, true, true])
        } else {
            ([b'a', b'b', b'c', 0], 3, [true, true, true, true, false])
        }
    }
    fn driver_hay() -> ([u8; 4], usize, [bool; 5]) {
        driver_hay_of(true)
    }

    pub(crate) fn init_oracle(len: usize, bnd: &[bool; 5]) {
        for i in 0..5 {
            let r: Option<usize> = kani::any();
            if let Some(e) = r { kani::assume(i <= e && e <= len && bnd[e]); }
            unsafe { ORACLE[i] = if i <= len && bnd[i] { r } else { None }; }
        }
        unsafe { LOG_N = 0; }
    }

    pub(crate) fn next_boundary(p: usize, len: usize, bnd: &[bool; 5]) -> Option<usize> {
        let mut q = p + 1;
        while q <= len {
            if bnd[q] { return Some(q); }
            q += 1;
        }
        None
    }

    fn f1_body(use_bitmap: bool) {
        let (buf, len, bnd) = driver_hay();
        let text = unsafe { core::str::from_utf8_unchecked(&buf[..len]) };
        let input = Utf8Input::new(text, false);
        let re = mk(vec![Insn::Goal], 0, 0, vec![]);
        init_oracle(len, &bnd);
        let admit: u8 = kani::any();
        // precondition established by startpredicate.rs: a prefilter admits only bytes that start a character
        kani::assume(admit < 0x80 || admit >= 0xC0);
        let bm = bytesearch::ByteBitmap::new(&[admit]);
        let start: usize = kani::any();
        kani::assume(start <= len && bnd[start]);
        let mut ex = BacktrackExecutor { input, matcher: MatchAttempter::new(&re, input.left_end()) };
        let mut next: Option<Pos> = None;
        let m = if use_bitmap {
            ex.next_match_with_prefix_search(input.left_end() + start, &mut next, &bm)
        } else {
            ex.next_match_with_prefix_search(input.left_end() + start, &mut next, &bytesearch::EmptyString {})
        };
        let got = m.as_ref().map(|m| (m.range.start, m.range.end));
        core::mem::forget(m);
        core::mem::forget(ex);
        // spec: scan boundaries p >= start in order; admitted(p) = EmptyString or (p < len and buf[p] == admit)
        let mut expect: Option<(usize, usize)> = None;
        let mut p = start;
        loop {
            let admitted = if use_bitmap { p < len && buf[p] == admit } else { true };
            if admitted {
                if let Some(e) = unsafe { ORACLE[p] } { expect = Some((p, e)); break; }
            }
            match next_boundary(p, len, &bnd) { Some(q) => p = q, None => break }
        }
        assert!(got == expect, "driver result = first success of the exhaustive ordered scan over admitted offsets");
        if let Some((p, e)) = expect {
            let ns = next.map(|q| input.pos_to_offset(q));
            if e != p { assert!(ns == Some(e)); } else { assert!(ns == next_boundary(e, len, &bnd)); }
        }
        unsafe {
            let mut i = 0;
            while i < LOG_N {
                assert!(LOG[i] >= start && LOG[i] <= len && bnd[LOG[i]], "attempt on a char boundary >= start");
                if use_bitmap { assert!(LOG[i] < len && buf[LOG[i]] == admit, "attempt only where the prefilter admits"); }
                if i > 0 { assert!(LOG[i - 1] < LOG[i], "attempts strictly increase"); }
                i += 1;
            }
        }
        kani::cover!(got.is_some() && len == 4);
        kani::cover!(got.is_none());
    }

    // @obligation name=f1_bt_driver_bitmap_search props=C04,C09:t,C01:t,C06:t fn=classicalbacktrack::BacktrackExecutor::next_match_with_prefix_search kind=bounded bound="haystack of 3 chars (3-4 bytes, one optional 2-byte char), every start boundary; prefilter = ByteBitmap of one symbolic lead byte; interpreter = oracle" min_checks=500 w=3 timeout=1500
    // next_match_with_prefix_search with a bitmap prefilter: attempts are made at strictly increasing char boundaries >= start
    // and only at offsets the prefilter admits; the result is the first admitted offset where the oracle succeeds;
    // next_start = end for a non-empty match, else the boundary after end (None at the end of input).
    #[kani::proof]
    #[kani::unwind(7)]
    #[kani::stub(MatchAttempter::try_at_pos, oracle_try_at_pos)]
    #[kani::stub(BacktrackExecutor::successful_match, sm_stub)]
    fn f1_bt_driver_bitmap_search() {
        f1_body(true);
    }

    // @obligation name=f1_bt_driver_exhaustive_search props=C04,C09,C01:t,C06:t fn=classicalbacktrack::BacktrackExecutor::next_match_with_prefix_search kind=bounded bound="haystack of 3 chars (3-4 bytes, one optional 2-byte char), every start boundary; prefilter = EmptyString (Arbitrary); interpreter = oracle" min_checks=500 w=3 timeout=1500
    // next_match_with_prefix_search with the trivial prefilter attempts every char boundary >= start in increasing order and
    // returns the first success: this is the reference scan the prefiltered searches are compared with.
    #[kani::proof]
    #[kani::unwind(7)]
    #[kani::stub(MatchAttempter::try_at_pos, oracle_try_at_pos)]
    #[kani::stub(BacktrackExecutor::successful_match, sm_stub)]
    fn f1_bt_driver_exhaustive_search() {
        f1_body(false);
    }

    // @obligation name=f2_bt_driver_anchored props=C04,C09,C06 fn=classicalbacktrack::BacktrackExecutor::next_match_anchored,classicalbacktrack::BacktrackExecutor::next_match kind=bounded bound="haystack of 3 chars (3-4 bytes), every start boundary; interpreter = oracle; start_pred = StartAnchored" min_checks=300 w=2 timeout=900
    // With a StartAnchored predicate next_match makes exactly one attempt, at the given position, and reports it.
    #[kani::proof]
    #[kani::unwind(7)]
    #[kani::stub(MatchAttempter::try_at_pos, oracle_try_at_pos)]
    #[kani::stub(BacktrackExecutor::successful_match, sm_stub)]
    fn f2_bt_driver_anchored() {
        use crate::exec::MatchProducer;
        let (buf, len, bnd) = driver_hay();
        let text = unsafe { core::str::from_utf8_unchecked(&buf[..len]) };
        let input = Utf8Input::new(text, false);
        let re = mk(vec![Insn::Goal], 0, 0, vec![]);
        re.start_pred = StartPredicate::StartAnchored;
        init_oracle(len, &bnd);
        let start: usize = kani::any();
        kani::assume(start <= len && bnd[start]);
        let mut ex = BacktrackExecutor { input, matcher: MatchAttempter::new(&re, input.left_end()) };
        let mut next: Option<Pos> = None;
        let m = ex.next_match(input.left_end() + start, &mut next);
        let found = m.is_some();
        let got = m.as_ref().map(|m| (m.range.start, m.range.end));
        core::mem::forget(m);
        core::mem::forget(ex);
        unsafe {
            assert!(LOG_N == 1 && LOG[0] == start);
            assert!(got == ORACLE[start].map(|e| (start, e)));
            if let Some(e) = ORACLE[start] {
                let ns = next.map(|q| input.pos_to_offset(q));
                if e != start { assert!(ns == Some(e)); } else { assert!(ns == next_boundary(e, len, &bnd)); }
            }
        }
        kani::cover!(found);
    }

    fn f3_body(two: bool) {
        let (_buf, len, bnd) = driver_hay_of(two);
        let text: &'static str = if two { "a\u{e9}b" } else { "abc" };
        let input = Utf8Input::new(text, false);
        let re = mk(vec![Insn::Goal], 0, 0, vec![]);
        init_oracle(len, &bnd);
        // (1) Matches::new: the cursor is `start` if start <= len, otherwise there is no cursor
        let start: usize = kani::any();
        kani::assume(start <= len + 1 && (start > len || bnd[start]));
        let ex = BacktrackExecutor { input, matcher: MatchAttempter::new(&re, input.left_end()) };
        let mut it = crate::exec::Matches::new(ex, start);
        assert!(crate::exec::__verif::cursor(&it).map(|p| input.pos_to_offset(p)) == if start <= len { Some(start) } else { None });
        // (2) inductive step: from ANY cursor (a boundary, or exhausted) one call of next() returns the first match at or
        // after the cursor and moves the cursor to its end (one character further after an empty match)
        let cur: usize = kani::any();
        kani::assume(cur <= len + 1 && (cur > len || bnd[cur]));
        crate::exec::__verif::set_cursor(&mut it, if cur <= len { Some(input.left_end() + cur) } else { None });
        let gm = it.next();
        let got = gm.as_ref().map(|m| (m.range.start, m.range.end));
        core::mem::forget(gm);
        let mut expect: Option<(usize, usize)> = None;
        if cur <= len {
            let mut p = cur;
            loop {
                if let Some(e) = unsafe { ORACLE[p] } { expect = Some((p, e)); break; }
                match next_boundary(p, len, &bnd) { Some(q) => p = q, None => break }
            }
        }
        assert!(got == expect, "next() = first match at or after the cursor");
        let newcur = crate::exec::__verif::cursor(&it).map(|p| input.pos_to_offset(p));
        match expect {
            Some((p, e)) => {
                assert!(newcur == if e != p { Some(e) } else { next_boundary(e, len, &bnd) }, "cursor advance rule");
                // progress: the new cursor is strictly beyond the old one, or the iterator is exhausted
                if let Some(n) = newcur { assert!(n > cur && bnd[n]); }
            }
            None => {
                // exhausted cursors stay exhausted (None is sticky)
                if cur > len { assert!(newcur.is_none()); }
            }
        }
        core::mem::forget(it);
        kani::cover!(start > len);
        kani::cover!(expect.is_some() && newcur.is_none());
        kani::cover!(expect.is_none() && cur <= len);
    }

    // @obligation name=f3_bt_matches_iteration_ascii props=C09,C06:t fn=exec::Matches::new,exec::Matches::next,classicalbacktrack::BacktrackExecutor::next_match,classicalbacktrack::BacktrackExecutor::initial_position kind=bounded bound="haystack \"abc\", every start offset 0..=len+1 for new(); ONE call of next() from every cursor state (inductive step); interpreter = arbitrary deterministic oracle" min_checks=500 w=3 timeout=1500
    // Matches::new sets the cursor to start (none if start > len); each next() returns the first match at or after the
    // cursor and sets cursor := end if non-empty else the next boundary after end. By induction over the calls the iterator
    // is the unfold of that rule: increasing non-overlapping ranges, at most chars+1 matches, None sticky.
    #[kani::proof]
    #[kani::unwind(7)]
    #[kani::stub(MatchAttempter::try_at_pos, oracle_try_at_pos)]
    #[kani::stub(BacktrackExecutor::successful_match, sm_stub)]
    fn f3_bt_matches_iteration_ascii() {
        f3_body(false);
    }

    // @obligation name=f3_bt_matches_iteration_multibyte props=C09,C06:t fn=exec::Matches::new,exec::Matches::next,classicalbacktrack::BacktrackExecutor::next_match kind=bounded bound="haystack \"a\u{e9}b\" (a 2-byte char in the middle), every start boundary and len+1 for new(); ONE call of next() from every cursor state (inductive step); interpreter = arbitrary deterministic oracle" min_checks=500 w=3 timeout=1500
    // The same unfold specification when advancing past an empty match must skip a whole multi-byte character.
    #[kani::proof]
    #[kani::unwind(7)]
    #[kani::stub(MatchAttempter::try_at_pos, oracle_try_at_pos)]
    #[kani::stub(BacktrackExecutor::successful_match, sm_stub)]
    fn f3_bt_matches_iteration_multibyte() {
        f3_body(true);
    }
}
