// Contracts for src/startpredicate.rs. View of a predicate: admits(p, b) = "a match attempt may start with byte b":
//   Arbitrary -> every b ; Sequence(s) -> b == s[0] ; Set(bm) -> bm.contains(b).
// Soundness statement (G1): whenever the node can start a match with first byte b, the computed predicate admits b, and a
// node that can match without consuming input (zero-width) yields no restriction (None or Arbitrary).
// Node values are never dropped inside a proof (ir::Node's recursive drop glue makes CBMC explore every variant).
#[cfg(kani)]
pub(crate) mod __verif {
    use super::*;
    use crate::types::BracketContents;

    type ASP = AbstractStartPredicate;

    fn admits(p: &ASP, b: u8) -> bool {
        match p {
            ASP::Arbitrary => true,
            ASP::Sequence(s) => s.len() > 0 && s[0] == b,
            ASP::Set(bm) => bm.contains(b),
        }
    }

    fn any_asp(kind: u8) -> ASP {
        match kind {
            0 => ASP::Arbitrary,
            1 => {
                let s: [u8; 2] = kani::any();
                ASP::Sequence(vec![s[0], s[1]])
            }
            _ => {
                let s: [u8; 2] = kani::any();
                ASP::Set(Box::new(ByteBitmap::new(&s)))
            }
        }
    }

    fn disj_body(kx: u8, ky: u8) {
        let x = any_asp(kx);
        let y = any_asp(ky);
        let b: u8 = kani::any();
        let ax = admits(&x, b);
        let ay = admits(&y, b);
        let d = ASP::disjunction(x, y);
        if ax || ay {
            assert!(admits(&d, b), "disjunction admits every byte either operand admits");
        }
        if kx == 0 || ky == 0 {
            assert!(matches!(&d, ASP::Arbitrary));
        }
        core::mem::forget(d);
        kani::cover!(ax && !ay);
        kani::cover!(!ax && ay);
    }

    // @obligation name=g2_disjunction_seq_seq props=C04 fn=startpredicate::AbstractStartPredicate::disjunction kind=bounded bound="two 2-byte sequences (symbolic bytes)" min_checks=50 w=2 timeout=900
    // disjunction(Sequence, Sequence): the shared prefix if there is one, else the set of the two first bytes - in both cases
    // every first byte either operand admits is admitted.
    #[kani::proof]
    #[kani::unwind(5)]
    fn g2_disjunction_seq_seq() {
        disj_body(1, 1);
    }

    // @obligation name=g2_disjunction_set_seq props=C04 fn=startpredicate::AbstractStartPredicate::disjunction kind=bounded bound="2-member set with a 2-byte sequence, both orders" min_checks=50 w=2 timeout=900
    // disjunction(Set, Sequence) and (Sequence, Set): the set plus the sequence's first byte.
    #[kani::proof]
    #[kani::unwind(5)]
    fn g2_disjunction_set_seq() {
        if kani::any() { disj_body(2, 1) } else { disj_body(1, 2) }
    }

    // @obligation name=g2_disjunction_set_set_arbitrary props=C04 fn=startpredicate::AbstractStartPredicate::disjunction kind=bounded bound="two 2-member sets; Arbitrary with a set / sequence" min_checks=50 w=2 timeout=900
    // disjunction(Set, Set) is the union (uses ByteBitmap::bitor); anything with Arbitrary is Arbitrary.
    #[kani::proof]
    #[kani::unwind(18)]
    fn g2_disjunction_set_set_arbitrary() {
        let w: u8 = kani::any();
        kani::assume(w < 3);
        match w { 0 => disj_body(2, 2), 1 => disj_body(0, 2), _ => disj_body(1, 0) }
    }

    // @obligation name=g2_resolve_to_insn props= fn=startpredicate::AbstractStartPredicate::resolve_to_insn kind=bounded bound="sets of 1..=2 symbolic members, 1-byte sequence, Arbitrary" min_checks=50 w=3 timeout=1500
    // resolve_to_insn denotes the same byte set: a k-member set (k <= 3) becomes ByteSetk with exactly its members, larger
    // sets a ByteBracket with the same bitmap, a 1-byte sequence ByteSet1, Arbitrary stays Arbitrary. (Sequences of >= 2
    // bytes build a memmem::Finder, which is trusted.)
    #[kani::proof]
    #[kani::unwind(258)]
    fn g2_resolve_to_insn() {
        let s: [u8; 4] = kani::any();
        let k: u8 = kani::any();
        kani::assume(k >= 1 && k <= 2);
        let members: &[u8] = match k { 1 => &s[..1], 2 => &s[..2], 3 => &s[..3], _ => &s[..4] };
        let bm = ByteBitmap::new(members);
        let b: u8 = kani::any();
        let inside = bm.contains(b);
        let r = ASP::Set(Box::new(bm)).resolve_to_insn();
        let adm = match &r {
            StartPredicate::Arbitrary => true,
            StartPredicate::ByteSet1(a) => b == a[0],
            StartPredicate::ByteSet2(a) => b == a[0] || b == a[1],
            StartPredicate::ByteSet3(a) => b == a[0] || b == a[1] || b == a[2],
            StartPredicate::ByteBracket(m) => m.contains(b),
            _ => { assert!(false); false }
        };
        assert!(adm == inside, "the resolved predicate admits exactly the set's members");
        let is3 = matches!(&r, StartPredicate::ByteSet2(_));
        core::mem::forget(r);
        let q = ASP::Sequence(vec![b]).resolve_to_insn();
        assert!(matches!(&q, StartPredicate::ByteSet1(a) if a[0] == b));
        assert!(matches!(ASP::Arbitrary.resolve_to_insn(), StartPredicate::Arbitrary));
        core::mem::forget(q);
        kani::cover!(is3);
    }

    fn leaf_result(n: &Node) -> Option<ASP> {
        compute_start_predicate(n)
    }

    // @obligation name=g1_leaf_bytes props=C04 fn=startpredicate::compute_start_predicate kind=bounded bound="ByteSequence of 2 symbolic bytes, ByteSet of 2, CharSet of 2 symbolic scalar values" min_checks=50 w=2 timeout=900
    // Leaves that consume a character: ByteSequence -> Sequence(the same bytes); ByteSet -> exactly its members;
    // CharSet -> the lead bytes of its members (every member's first byte is admitted).
    #[kani::proof]
    #[kani::unwind(5)]
    fn g1_leaf_bytes() {
        let s: [u8; 2] = kani::any();
        let b: u8 = kani::any();
        let n1 = Node::ByteSequence(vec![s[0], s[1]]);
        let r1 = leaf_result(&n1);
        assert!(matches!(&r1, Some(ASP::Sequence(v)) if v.len() == 2 && v[0] == s[0] && v[1] == s[1]));
        let n2 = Node::ByteSet(vec![s[0], s[1]]);
        let r2 = leaf_result(&n2);
        assert!(matches!(&r2, Some(ASP::Set(bm)) if bm.contains(b) == (b == s[0] || b == s[1])));
        let c: char = kani::any();
        let d: char = kani::any();
        let n3 = Node::CharSet(vec![c as u32, d as u32]);
        let r3 = leaf_result(&n3);
        let mut e = [0u8; 4];
        let lead = c.encode_utf8(&mut e).as_bytes()[0];
        assert!(matches!(&r3, Some(ASP::Set(bm)) if bm.contains(lead)), "the first byte of every member is admitted");
        core::mem::forget((n1, n2, n3, r1, r2, r3));
        kani::cover!(lead >= 0xF0);
    }

    // @obligation name=g1_leaf_bracket props= fn=startpredicate::compute_start_predicate,startpredicate::cps_to_first_byte_bitmap kind=bounded bound="bracket with 1 symbolic interval, invert symbolic; probe: every scalar value" min_checks=50 w=4 timeout=3000
    // Bracket -> a set that admits the lead byte of EVERY character the bracket matches (members, or non-members when
    // inverted).
    #[kani::proof]
    #[kani::unwind(130)]
    fn g1_leaf_bracket() {
        let first: u32 = kani::any();
        let last: u32 = kani::any();
        kani::assume(first <= last && last <= 0x10FFFF);
        let invert: bool = kani::any();
        let cps = crate::codepointset::CodePointSet::from_sorted_disjoint_intervals(vec![crate::codepointset::Interval { first, last }]);
        let n = Node::Bracket(BracketContents { invert, cps });
        let r = leaf_result(&n);
        let c: char = kani::any();
        let matches_c = (first <= c as u32 && c as u32 <= last) != invert;
        let mut e = [0u8; 4];
        let lead = c.encode_utf8(&mut e).as_bytes()[0];
        match &r {
            Some(ASP::Set(bm)) => { if matches_c { assert!(bm.contains(lead), "lead byte of every matched char is admitted"); } }
            _ => assert!(false),
        }
        core::mem::forget((n, r));
        kani::cover!(invert && matches_c);
        kani::cover!(!invert && matches_c && lead >= 0xE0);
    }

    // @obligation name=g1_leaf_zero_width props=C04 fn=startpredicate::compute_start_predicate kind=bounded bound="each non-consuming / unanalysed leaf kind" min_checks=50 w=2 timeout=900
    // Nodes that may match without a known first byte impose no restriction: a lookaround yields None (contributes
    // nothing), Empty/Goal/BackRef/Char/MatchAny*/Anchor/WordBoundary yield Arbitrary, and so does a loop that may run
    // zero times.
    #[kani::proof]
    #[kani::unwind(3)]
    fn g1_leaf_zero_width() {
        let la = Node::LookaroundAssertion { negate: kani::any(), backwards: kani::any(), start_group: 0, end_group: 0, contents: Box::new(Node::Empty) };
        let r = leaf_result(&la);
        assert!(r.is_none());
        core::mem::forget((la, r));
        let e = Node::Empty;
        assert!(matches!(leaf_result(&e), Some(ASP::Arbitrary)));
        let c = Node::Char { c: kani::any() };
        assert!(matches!(leaf_result(&c), Some(ASP::Arbitrary)));
        let br = Node::BackRef { group: 1, icase: false };
        assert!(matches!(leaf_result(&br), Some(ASP::Arbitrary)));
        let an = Node::Anchor { anchor_type: ir::AnchorType::StartOfLine, multiline: kani::any() };
        assert!(matches!(leaf_result(&an), Some(ASP::Arbitrary)));
        let wb = Node::WordBoundary { invert: kani::any(), unicode_icase: false };
        assert!(matches!(leaf_result(&wb), Some(ASP::Arbitrary)));
        core::mem::forget((e, c, br, an, wb));
        kani::cover!(true);
    }

    /// Cuts the Bracket arm (its own obligation is g1_leaf_bracket) in trees that contain no bracket: reaching it fails.
    fn no_cps_bitmap(_input: &codepointset::CodePointSet) -> Box<ByteBitmap> {
        panic!("no bracket in this tree")
    }

    fn la() -> Node {
        Node::LookaroundAssertion { negate: false, backwards: false, start_group: 0, end_group: 0, contents: Box::new(Node::Empty) }
    }

    // @obligation name=g1_alt_zero_width_last_arm props=C04 fn=startpredicate::compute_start_predicate kind=bounded bound="Alt(ByteSequence[a], lookaround)" min_checks=50 w=3 timeout=1500
    // An alternation whose LAST arm is zero-width (a lookaround) can match at any offset: its predicate must be Arbitrary.
    #[kani::proof]
    #[kani::unwind(3)]
    #[kani::stub(cps_to_first_byte_bitmap, no_cps_bitmap)]
    fn g1_alt_zero_width_last_arm() {
        let a: u8 = kani::any();
        let n1 = Node::Alt(Box::new(Node::ByteSequence(vec![a])), Box::new(la()));
        let r1 = compute_start_predicate(&n1);
        assert!(matches!(&r1, Some(ASP::Arbitrary)), "zero-width last arm => no restriction");
        core::mem::forget((n1, r1));
        kani::cover!(true);
    }

    // @obligation name=g1_alt_zero_width_first_arm props=C04 fn=startpredicate::compute_start_predicate kind=bounded bound="Alt(lookaround, ByteSequence[a])" min_checks=50 w=3 timeout=1500
    // The same with the zero-width arm first.
    #[kani::proof]
    #[kani::unwind(3)]
    #[kani::stub(cps_to_first_byte_bitmap, no_cps_bitmap)]
    fn g1_alt_zero_width_first_arm() {
        let a: u8 = kani::any();
        let n2 = Node::Alt(Box::new(la()), Box::new(Node::ByteSequence(vec![a])));
        let r2 = compute_start_predicate(&n2);
        assert!(matches!(&r2, Some(ASP::Arbitrary)), "zero-width first arm => no restriction");
        core::mem::forget((n2, r2));
        kani::cover!(true);
    }

    // @obligation name=g1_alt_two_literals props=C04 fn=startpredicate::compute_start_predicate kind=bounded bound="Alt(ByteSequence[a], ByteSequence[b]), symbolic bytes" min_checks=50 w=3 timeout=1500
    // With two consuming arms the first byte of either arm is admitted.
    #[kani::proof]
    #[kani::unwind(3)]
    #[kani::stub(cps_to_first_byte_bitmap, no_cps_bitmap)]
    fn g1_alt_two_literals() {
        let a: u8 = kani::any();
        let b: u8 = kani::any();
        let n3 = Node::Alt(Box::new(Node::ByteSequence(vec![a])), Box::new(Node::ByteSequence(vec![b])));
        let r3 = compute_start_predicate(&n3);
        match &r3 {
            Some(p) => assert!(admits(p, a) && admits(p, b)),
            None => assert!(false),
        }
        core::mem::forget((n3, r3));
        kani::cover!(a != b);
    }

    // @obligation name=g1_cat_skips_zero_width props=C04 fn=startpredicate::compute_start_predicate kind=bounded bound="Cat[lookaround, ByteSequence[a]] and Cat[]" min_checks=50 w=3 timeout=1500
    // A Cat takes the predicate of its first child that has one (zero-width children are skipped); an empty Cat has none.
    #[kani::proof]
    #[kani::unwind(4)]
    #[kani::stub(cps_to_first_byte_bitmap, no_cps_bitmap)]
    fn g1_cat_skips_zero_width() {
        let a: u8 = kani::any();
        let n1 = Node::Cat(vec![la(), Node::ByteSequence(vec![a])]);
        let r1 = compute_start_predicate(&n1);
        assert!(matches!(&r1, Some(ASP::Sequence(v)) if v.len() == 1 && v[0] == a));
        let n2 = Node::Cat(Vec::new());
        let r2 = compute_start_predicate(&n2);
        assert!(r2.is_none());
        core::mem::forget((n1, n2, r1, r2));
        kani::cover!(true);
    }

    // @obligation name=g1_loop_and_group props= fn=startpredicate::compute_start_predicate kind=bounded bound="Loop{min 1}(ByteSequence[a])" min_checks=50 w=3 timeout=1500
    // A loop contributes its body's predicate only if it must run at least once, else Arbitrary; groups are transparent.
    #[kani::proof]
    #[kani::unwind(3)]
    #[kani::stub(cps_to_first_byte_bitmap, no_cps_bitmap)]
    fn g1_loop_and_group() {
        g1_loop_body(1);
    }

    // @obligation name=g1_loop_optional props= fn=startpredicate::compute_start_predicate kind=bounded bound="Loop{min 0}(ByteSequence[a])" min_checks=50 w=3 timeout=1500
    // A loop that may run zero times imposes no start predicate.
    #[kani::proof]
    #[kani::unwind(3)]
    #[kani::stub(cps_to_first_byte_bitmap, no_cps_bitmap)]
    fn g1_loop_optional() {
        g1_loop_body(0);
    }

    fn g1_loop_body(min: usize) {
        let a: u8 = kani::any();
        let n3 = Node::Loop { loopee: Box::new(Node::ByteSequence(vec![a])), quant: ir::Quantifier { min, max: None, greedy: true }, enclosed_groups: 0..0 };
        let r3 = compute_start_predicate(&n3);
        if min > 0 {
            assert!(matches!(&r3, Some(ASP::Sequence(v)) if v[0] == a));
        } else {
            assert!(matches!(&r3, Some(ASP::Arbitrary)), "a loop that may run zero times imposes nothing");
        }
        core::mem::forget((n3, r3));
        kani::cover!(true);
    }

    // @obligation name=g1_group_transparent props=C04 fn=startpredicate::compute_start_predicate kind=bounded bound="CaptureGroup(ByteSequence[a])" min_checks=50 w=3 timeout=1500
    // A capture group contributes its contents' predicate.
    #[kani::proof]
    #[kani::unwind(3)]
    #[kani::stub(cps_to_first_byte_bitmap, no_cps_bitmap)]
    fn g1_group_transparent() {
        let a: u8 = kani::any();
        let n4 = Node::CaptureGroup { id: 0, contents: Box::new(Node::ByteSequence(vec![a])), name: None };
        let r4 = compute_start_predicate(&n4);
        assert!(matches!(&r4, Some(ASP::Sequence(v)) if v[0] == a));
        core::mem::forget((n4, r4));
        kani::cover!(true);
    }

    // @obligation name=g2_is_start_anchored props=C04 fn=startpredicate::is_start_anchored,startpredicate::predicate_for_re kind=bounded bound="^ alone, Cat[^, x], Alt(^a, b), Alt(^a, ^b), $ ; multiline symbolic" min_checks=50 w=3 timeout=1500
    // StartAnchored is chosen only if EVERY alternative begins with a non-multiline ^ (then a match can only start at
    // offset 0) and the regex is not multiline: Alt needs both arms anchored; $ and multiline ^ do not count.
    #[kani::proof]
    #[kani::unwind(4)]
    fn g2_is_start_anchored() {
        let ml: bool = kani::any();
        let caret = |m: bool| Node::Anchor { anchor_type: ir::AnchorType::StartOfLine, multiline: m };
        let n1 = caret(ml);
        assert!(is_start_anchored(&n1) == !ml);
        let n2 = Node::Cat(vec![caret(ml), Node::Char { c: 0x61 }]);
        assert!(is_start_anchored(&n2) == !ml);
        let n3 = Node::Alt(Box::new(Node::Cat(vec![caret(false), Node::Char { c: 0x61 }])), Box::new(Node::Char { c: 0x62 }));
        assert!(!is_start_anchored(&n3), "one unanchored alternative => not anchored");
        let n4 = Node::Alt(Box::new(caret(false)), Box::new(caret(ml)));
        assert!(is_start_anchored(&n4) == !ml);
        let n5 = Node::Anchor { anchor_type: ir::AnchorType::EndOfLine, multiline: false };
        assert!(!is_start_anchored(&n5));
        let n6 = Node::Cat(vec![Node::Char { c: 0x61 }, caret(false)]);
        assert!(!is_start_anchored(&n6));
        core::mem::forget((n1, n2, n3, n4, n5, n6));
        kani::cover!(ml);
    }
}
