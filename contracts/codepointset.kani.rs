// Contracts for src/codepointset.rs against a set-of-code-points view.
//   has(s, cp)  := exists i. s.ivs[i].first <= cp <= s.ivs[i].last
//   wf(s)       := every interval ordered and <= 0x10FFFF, and ivs[i].last + 1 < ivs[i+1].first (sorted, disjoint, non-abutting)
// Vectors have a CONCRETE length (0..=2, one harness per length) with SYMBOLIC contents; results are probed at a symbolic cp.
#[cfg(kani)]
pub(crate) mod __verif {
    use super::*;

    pub(crate) fn has(ivs: &[Interval], cp: u32) -> bool {
        let mut r = false;
        let mut i = 0;
        while i < ivs.len() {
            if ivs[i].first <= cp && cp <= ivs[i].last {
                r = true;
            }
            i += 1;
        }
        r
    }

    pub(crate) fn wf(ivs: &[Interval]) -> bool {
        let mut ok = true;
        let mut i = 0;
        while i < ivs.len() {
            if !(ivs[i].first <= ivs[i].last && ivs[i].last <= CODE_POINT_MAX) {
                ok = false;
            }
            if i + 1 < ivs.len() && !(ivs[i].last + 1 < ivs[i + 1].first) {
                ok = false;
            }
            i += 1;
        }
        ok
    }

    pub(crate) fn any_iv() -> Interval {
        let first: u32 = kani::any();
        let last: u32 = kani::any();
        kani::assume(first <= last && last <= CODE_POINT_MAX);
        Interval { first, last }
    }

    /// A well-formed set with exactly `n` symbolic intervals (n is a constant at each call site).
    pub(crate) fn any_set(n: usize) -> CodePointSet {
        let mut v = Vec::with_capacity(4);
        let mut i = 0;
        while i < n {
            v.push(any_iv());
            i += 1;
        }
        kani::assume(wf(&v));
        CodePointSet::from_sorted_disjoint_intervals(v)
    }

    // @obligation name=ck1_interval_ops props=C12 fn=codepointset::Interval::compare,codepointset::Interval::is_before,codepointset::Interval::is_strictly_before,codepointset::Interval::mergecmp,codepointset::Interval::mergeable,codepointset::Interval::contains,codepointset::Interval::overlaps,codepointset::Interval::count_codepoints,codepointset::Interval::codepoints kind=complete domain="every pair of intervals within 0..=0x10FFFF, every code point" min_checks=20
    // Interval predicates against arithmetic specs: compare orders cp relative to the interval; overlaps <=> a common code
    // point exists; mergeable <=> overlapping or abutting; count = last-first+1; no arithmetic overflow.
    #[kani::proof]
    fn ck1_interval_ops() {
        let a = any_iv();
        let b = any_iv();
        let cp: u32 = kani::any();
        assert!(a.contains(cp) == (a.first <= cp && cp <= a.last));
        assert!(a.compare(cp) == if cp < a.first { Ordering::Greater } else if cp > a.last { Ordering::Less } else { Ordering::Equal });
        assert!(a.is_before(b) == (a.last < b.first));
        assert!(a.is_strictly_before(b) == (a.last + 1 < b.first));
        let common = a.first.max(b.first) <= a.last.min(b.last);
        assert!(a.overlaps(b) == common);
        let abut = a.last + 1 == b.first || b.last + 1 == a.first;
        assert!(a.mergeable(b) == (common || abut));
        assert!(a.mergecmp(b) == if a.last + 1 < b.first { Ordering::Less } else if b.last + 1 < a.first { Ordering::Greater } else { Ordering::Equal });
        assert!(a.count_codepoints() == (a.last - a.first) as usize + 1);
        let r = a.codepoints();
        assert!(r.start == a.first && r.end == a.last + 1);
        kani::cover!(abut && !common);
    }

    fn add_body(n: usize) {
        let mut s = any_set(n);
        let old: Vec<Interval> = s.ivs.clone();
        let niv = any_iv();
        s.add(niv);
        assert!(wf(&s.ivs), "add keeps the set well-formed");
        let cp: u32 = kani::any();
        assert!(has(&s.ivs, cp) == (has(&old, cp) || niv.contains(cp)), "add is set union with the interval");
        assert!(s.contains(cp) == has(&s.ivs, cp), "contains = membership");
        kani::cover!(s.ivs.len() <= old.len());
        kani::cover!(s.ivs.len() > old.len() || n == 2);
    }

    // @obligation name=ck1_add_len0 props=C12 fn=codepointset::CodePointSet::add,codepointset::CodePointSet::contains kind=bounded bound="set of 0 intervals; new interval symbolic" min_checks=50 w=2 timeout=900
    // add on the empty set: result is well-formed and denotes exactly the interval.
    #[kani::proof]
    #[kani::unwind(6)]
    fn ck1_add_len0() {
        let mut s = CodePointSet::new();
        let niv = any_iv();
        s.add(niv);
        assert!(wf(&s.ivs));
        let cp: u32 = kani::any();
        assert!(has(&s.ivs, cp) == niv.contains(cp));
        assert!(s.contains(cp) == niv.contains(cp));
        assert!(!s.is_empty());
        kani::cover!(niv.first < niv.last);
    }

    // @obligation name=ck1_add_len1 props=C12 fn=codepointset::CodePointSet::add kind=bounded bound="set of 1 symbolic interval; new interval symbolic (insert before/after, merge)" min_checks=50 w=2 timeout=900
    // add on a 1-interval set: well-formed result whose members are the union (covers insert and single-merge arms).
    #[kani::proof]
    #[kani::unwind(6)]
    fn ck1_add_len1() {
        add_body(1);
    }

    // @obligation name=ck1_add_len2 props=C12 fn=codepointset::CodePointSet::add kind=bounded bound="set of 2 symbolic intervals; new interval symbolic (all three arms incl. multi-merge with drain)" min_checks=50 w=3 timeout=1500
    // add on a 2-interval set: well-formed result whose members are the union (covers the multi-interval merge arm).
    #[kani::proof]
    #[kani::unwind(6)]
    fn ck1_add_len2() {
        add_body(2);
    }

    // @obligation name=ck1_add_one_add_set props=C12:t fn=codepointset::CodePointSet::add_one,codepointset::CodePointSet::add_set kind=bounded bound="sets of 1 and 2 symbolic intervals (both size orders, exercising the swap)" min_checks=50 w=3 timeout=1500
    // add_one(cp) adds exactly cp; add_set is set union whichever operand is larger (it swaps to add into the bigger one).
    #[kani::proof]
    #[kani::unwind(6)]
    fn ck1_add_one_add_set() {
        let mut s = any_set(1);
        let olds: Vec<Interval> = s.ivs.clone();
        let x: u32 = kani::any();
        kani::assume(x <= CODE_POINT_MAX);
        let cp: u32 = kani::any();
        let mut s1 = s.clone();
        s1.add_one(x);
        assert!(wf(&s1.ivs));
        assert!(has(&s1.ivs, cp) == (has(&olds, cp) || cp == x));
        let t = any_set(2);
        let oldt: Vec<Interval> = t.ivs.clone();
        let swap: bool = kani::any();
        if swap {
            let mut t2 = t.clone();
            t2.add_set(s.clone());
            assert!(wf(&t2.ivs));
            assert!(has(&t2.ivs, cp) == (has(&olds, cp) || has(&oldt, cp)));
        } else {
            s.add_set(t);
            assert!(wf(&s.ivs));
            assert!(has(&s.ivs, cp) == (has(&olds, cp) || has(&oldt, cp)));
        }
        kani::cover!(swap);
        kani::cover!(!swap);
    }

    fn remove_body(n: usize, m: usize) {
        let mut s = any_set(n);
        let old: Vec<Interval> = s.ivs.clone();
        let r = any_set(m);
        s.remove(r.intervals());
        let cp: u32 = kani::any();
        assert!(has(&s.ivs, cp) == (has(&old, cp) && !has(&r.ivs, cp)), "remove is set difference");
        assert!(wf(&s.ivs), "remove keeps the set well-formed");
        kani::cover!(s.ivs.len() > old.len());
        kani::cover!(s.ivs.len() < old.len());
    }

    // @obligation name=ck1_remove_1_1 props=C12 fn=codepointset::CodePointSet::remove kind=bounded bound="1 interval minus 1 interval (symbolic)" min_checks=50 w=2 timeout=900
    // remove(intervals) is set difference and keeps well-formedness (split, trim left/right, delete).
    #[kani::proof]
    #[kani::unwind(6)]
    fn ck1_remove_1_1() {
        remove_body(1, 1);
    }

    // @obligation name=ck1_remove_2_1 props= fn=codepointset::CodePointSet::remove kind=bounded bound="2 intervals minus 1 interval (symbolic)" min_checks=50 w=3 timeout=1500
    // remove where the removed interval may span both intervals of the set.
    #[kani::proof]
    #[kani::unwind(6)]
    fn ck1_remove_2_1() {
        remove_body(2, 1);
    }

    // @obligation name=ck1_remove_1_2 props=C12:t fn=codepointset::CodePointSet::remove kind=bounded bound="1 interval minus 2 intervals (symbolic)" min_checks=50 w=4 timeout=2400
    // remove where one interval of the set is cut by two removed intervals (split into up to three pieces).
    #[kani::proof]
    #[kani::unwind(6)]
    fn ck1_remove_1_2() {
        remove_body(1, 2);
    }

    fn intersect_body(n: usize, m: usize) {
        let mut s = any_set(n);
        let old: Vec<Interval> = s.ivs.clone();
        let r = any_set(m);
        s.intersect(r.intervals());
        let cp: u32 = kani::any();
        assert!(has(&s.ivs, cp) == (has(&old, cp) && has(&r.ivs, cp)), "intersect is set intersection");
        assert!(wf(&s.ivs), "intersect keeps the set well-formed");
        kani::cover!(s.ivs.len() == 2);
    }

    // @obligation name=ck1_intersect_2_2 props=C12:t fn=codepointset::CodePointSet::intersect kind=bounded bound="2 intervals with 2 intervals (symbolic)" min_checks=50 w=3 timeout=1500
    // intersect(intervals) is set intersection and keeps well-formedness.
    #[kani::proof]
    #[kani::unwind(6)]
    fn ck1_intersect_2_2() {
        intersect_body(2, 2);
    }

    // @obligation name=ck1_intersect_1_2 props=C12 fn=codepointset::CodePointSet::intersect kind=bounded bound="1 interval with 2 intervals (symbolic)" min_checks=50 w=2 timeout=900
    // intersect(intervals) is set intersection and keeps well-formedness.
    #[kani::proof]
    #[kani::unwind(6)]
    fn ck1_intersect_1_2() {
        intersect_body(1, 2);
    }

    fn inverted_body(n: usize) {
        let s = any_set(n);
        let inv = s.inverted();
        let cp: u32 = kani::any();
        kani::assume(cp <= CODE_POINT_MAX);
        assert!(has(&inv.ivs, cp) == !has(&s.ivs, cp), "inverted denotes the complement within 0..=0x10FFFF");
        assert!(wf(&inv.ivs));
        assert!(s.inverted_interval_count() == inv.ivs.len(), "inverted_interval_count = number of intervals of inverted()");
        assert!(s.contains_all_codepoints() == inv.is_empty(), "contains_all_codepoints <=> complement is empty");
        kani::cover!(inv.ivs.len() == n + 1);
        kani::cover!(inv.ivs.len() + 1 == n || inv.ivs.len() == n);
    }

    // @obligation name=ck1_inverted_len2 props= fn=codepointset::CodePointSet::inverted,codepointset::CodePointSet::inverted_interval_count,codepointset::CodePointSet::contains_all_codepoints,codepointset::CodePointSet::is_empty kind=bounded bound="set of 2 symbolic intervals (the unbounded statement is the Verus obligation cv_inverted)" min_checks=50 w=2 timeout=900
    // inverted() = complement; inverted_interval_count() agrees with it; contains_all_codepoints() <=> complement empty.
    // (disabled: exceeds the memory cap under load; superseded by the unbounded Verus units cv_inverted / cv_interval_misc)
    #[kani::proof]
    #[kani::unwind(6)]
    fn ck1_inverted_len2() {
        inverted_body(2);
    }

    // @obligation name=ck1_inverted_len01 props=C12,C03:t fn=codepointset::CodePointSet::inverted,codepointset::CodePointSet::inverted_interval_count,codepointset::CodePointSet::contains_all_codepoints kind=bounded bound="sets of 0 and 1 symbolic intervals" min_checks=50 w=2 timeout=900
    // The same for the empty set (complement = everything) and 1-interval sets (incl. the full set, whose complement is empty).
    #[kani::proof]
    #[kani::unwind(6)]
    fn ck1_inverted_len01() {
        inverted_body(1);
        let e = CodePointSet::new();
        let inv = e.inverted();
        assert!(inv.ivs.len() == 1 && inv.ivs[0].first == 0 && inv.ivs[0].last == CODE_POINT_MAX);
        assert!(inv.contains_all_codepoints() && e.inverted_interval_count() == 1 && e.is_empty());
    }

    // @obligation name=ck1_bracket_is_empty props=C12,C03:t fn=types::BracketContents::is_empty kind=bounded bound="sets of 0..=1 symbolic intervals, invert symbolic" min_checks=20 w=2 timeout=900
    // BracketContents::is_empty() <=> the bracket matches no code point (empty set not inverted, or full set inverted).
    #[kani::proof]
    #[kani::unwind(6)]
    fn ck1_bracket_is_empty() {
        let n1: bool = kani::any();
        let s = if n1 { any_set(1) } else { any_set(0) };
        let invert: bool = kani::any();
        let cp: u32 = kani::any();
        kani::assume(cp <= CODE_POINT_MAX);
        let m = has(&s.ivs, cp) != invert;
        let bc = crate::types::BracketContents { invert, cps: s };
        if bc.is_empty() {
            assert!(!m, "an empty bracket matches nothing");
        }
        if n1 && invert && bc.cps.ivs[0].first == 0 && bc.cps.ivs[0].last == CODE_POINT_MAX {
            assert!(bc.is_empty());
        }
        if !n1 && !invert {
            assert!(bc.is_empty());
        }
        kani::cover!(bc.is_empty() && invert);
    }
}
