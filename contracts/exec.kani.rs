// Access helpers for src/exec.rs (the iteration contract itself is f3_bt_matches_iteration_* in classicalbacktrack.kani.rs,
// which needs the private cursor of Matches to state the inductive step).
#[cfg(kani)]
pub(crate) mod __verif {
    use super::*;

    pub(crate) fn cursor<P: MatchProducer>(m: &Matches<P>) -> Option<P::Position> {
        m.position
    }

    pub(crate) fn set_cursor<P: MatchProducer>(m: &mut Matches<P>, p: Option<P::Position>) {
        m.position = p;
    }
}
