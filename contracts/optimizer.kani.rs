// Contracts for src/optimizer.rs: the per-node pass functions (they are plain `fn(&mut Node, &Walk) -> PassAction`; the
// tree walk that applies them recurses over ir::Node and is NOT under contract). Each contract is the side condition under
// which the rewrite is an identity on any reasonable semantics.
// (form_literal_bytes is compiled out under the utf16 feature, so is this module)
#[cfg(all(kani, not(feature = "utf16")))]
pub(crate) mod __verif {
    use super::*;

    fn walk(in_lookbehind: bool) -> Walk {
        Walk { skip_children: false, depth: 0, in_lookbehind, unicode: false }
    }

    // @obligation name=h2_form_literal_bytes_char props=C03,C01:t fn=optimizer::form_literal_bytes kind=complete domain="every u32 operand" min_checks=50 w=2 timeout=900
    // Char{c} is replaced by ByteSequence(utf8(c)) exactly when c is a Unicode scalar value; a surrogate / out-of-range
    // code point is kept (so matching it is left to the Char instruction, which never matches in UTF-8).
    #[kani::proof]
    #[kani::unwind(6)]
    fn h2_form_literal_bytes_char() {
        let c: u32 = kani::any();
        let mut n = Node::Char { c };
        let r = form_literal_bytes(&mut n, &walk(kani::any()));
        match char::from_u32(c) {
            Some(ch) => {
                let mut b = [0u8; 4];
                let e = ch.encode_utf8(&mut b).as_bytes();
                match &r {
                    PassAction::Replace(Node::ByteSequence(v)) => {
                        assert!(v.len() == e.len());
                        let i: usize = kani::any();
                        kani::assume(i < e.len());
                        assert!(v[i] == e[i]);
                    }
                    _ => assert!(false, "a scalar Char becomes its UTF-8 bytes"),
                }
            }
            None => assert!(matches!(&r, PassAction::Keep)),
        }
        // never run Node's recursive drop glue under CBMC
        core::mem::forget(r);
        core::mem::forget(n);
        kani::cover!(c > 0x10000 && c <= 0x10FFFF);
        kani::cover!(c >= 0xD800 && c < 0xE000);
    }

    // @obligation name=h2_form_literal_bytes_charset props=C03,C01:t fn=optimizer::form_literal_bytes kind=bounded bound="CharSet of 2 or 3 symbolic code points" min_checks=50 w=2 timeout=900
    // A CharSet is lowered to a ByteSet only when EVERY member is ASCII (<= 0x7F), and then with the same members; otherwise
    // it is kept (a byte >= 0x80 in a ByteSet would match inside a UTF-8 sequence).
    #[kani::proof]
    #[kani::unwind(6)]
    fn h2_form_literal_bytes_charset() {
        let c: [u32; 3] = kani::any();
        let three: bool = kani::any();
        let mut n = Node::CharSet(if three { vec![c[0], c[1], c[2]] } else { vec![c[0], c[1]] });
        let k = if three { 3 } else { 2 };
        let all_ascii = c[0] <= 0x7F && c[1] <= 0x7F && (!three || c[2] <= 0x7F);
        let r = form_literal_bytes(&mut n, &walk(kani::any()));
        match &r {
            PassAction::Replace(Node::ByteSet(v)) => {
                assert!(all_ascii, "only all-ASCII CharSets become ByteSets");
                assert!(v.len() == k);
                let i: usize = kani::any();
                kani::assume(i < k);
                assert!(v[i] as u32 == c[i]);
            }
            PassAction::Keep => assert!(!all_ascii),
            _ => assert!(false),
        }
        core::mem::forget(r);
        core::mem::forget(n);
        kani::cover!(all_ascii && three);
        kani::cover!(!all_ascii && c[0] == 0x80);
    }

    // @obligation name=h2_form_literal_bytes_cat props=C03,C01:t fn=optimizer::form_literal_bytes kind=bounded bound="Cat of two 1-byte ByteSequences (symbolic bytes), inside and outside lookbehind" min_checks=50 w=3 timeout=1500
    // Adjacent literal byte sequences in a Cat are merged into one holding their concatenation in SOURCE order: prev++curr
    // outside a lookbehind; inside a lookbehind the children were reversed by the parser, so curr++prev; the emptied node
    // stays as an empty sequence.
    #[kani::proof]
    #[kani::unwind(6)]
    fn h2_form_literal_bytes_cat() {
        let a: u8 = kani::any();
        let b: u8 = kani::any();
        let lb: bool = kani::any();
        let mut n = Node::Cat(vec![Node::ByteSequence(vec![a]), Node::ByteSequence(vec![b])]);
        let r = form_literal_bytes(&mut n, &walk(lb));
        assert!(matches!(&r, PassAction::Modified));
        core::mem::forget(r);
        match &n {
            Node::Cat(v) => {
                assert!(v.len() == 2);
                match (&v[0], &v[1]) {
                    (Node::ByteSequence(p), Node::ByteSequence(q)) => {
                        assert!(p.len() == 0 && q.len() == 2);
                        if lb { assert!(q[0] == b && q[1] == a); } else { assert!(q[0] == a && q[1] == b); }
                    }
                    _ => assert!(false),
                }
            }
            _ => assert!(false),
        }
        core::mem::forget(n);
        kani::cover!(lb);
        kani::cover!(!lb);
    }

    // @obligation name=h1_try_reduce_bracket props=C03,C12 fn=optimizer::try_reduce_bracket,optimizer::simplify_brackets kind=bounded bound="bracket with 1 symbolic interval, invert symbolic" min_checks=50 w=3 timeout=1500
    // try_reduce_bracket returns a CharSet only for a non-inverted bracket with at most 4 code points, and then exactly
    // its members in increasing order; simplify_brackets otherwise either keeps the bracket or replaces (cps, invert) by
    // (complement, !invert), which denotes the same set.
    #[kani::proof]
    #[kani::unwind(8)]
    fn h1_try_reduce_bracket() {
        let first: u32 = kani::any();
        let last: u32 = kani::any();
        kani::assume(first <= last && last <= 0x10FFFF);
        let invert: bool = kani::any();
        let cps = crate::codepointset::CodePointSet::from_sorted_disjoint_intervals(vec![crate::codepointset::Interval { first, last }]);
        let bc = BracketContents { invert, cps };
        let r = try_reduce_bracket(&bc);
        let count = (last - first) as usize + 1;
        match &r {
            Some(Node::CharSet(v)) => {
                assert!(!invert && count <= MAX_CHAR_SET_LENGTH);
                assert!(v.len() == count);
                let i: usize = kani::any();
                kani::assume(i < count);
                assert!(v[i] == first + i as u32);
            }
            None => assert!(invert || count > MAX_CHAR_SET_LENGTH),
            _ => assert!(false),
        }
        core::mem::forget(r);
        core::mem::forget(bc);
        kani::cover!(count == 4 && !invert);
        kani::cover!(count == 5);
    }

    // @obligation name=h4_promote_1char_loops props=C03,C01:t fn=optimizer::promote_1char_loops,ir::Node::matches_exactly_one_char kind=bounded bound="Loop over a Char body (every u32 operand), symbolic quantifier; one harness per body kind" min_checks=50 w=2 timeout=900
    // A Loop is promoted to Loop1CharBody only when its body is a node that matches exactly one character (Char, non-empty
    // CharSet, MatchAny, MatchAnyExceptLineTerminator - kinds the single-char loop executor handles), keeping the
    // quantifier and the body unchanged; other bodies (multi-byte literals, backreferences, empty sets) are kept.
    #[kani::proof]
    #[kani::unwind(2)]
    fn h4_promote_1char_loops() {
        h4_body(0);
    }

    // @obligation name=h4_promote_1char_loops_charset props=C03:t,C01:t fn=optimizer::promote_1char_loops kind=bounded bound="Loop over a 1-member CharSet, symbolic quantifier" min_checks=50 w=2 timeout=900
    // Same contract for a non-empty CharSet body (promoted).
    #[kani::proof]
    #[kani::unwind(2)]
    fn h4_promote_1char_loops_charset() {
        h4_body(1);
    }

    // @obligation name=h4_promote_1char_loops_literal props=C03:t fn=optimizer::promote_1char_loops kind=bounded bound="Loop over a 2-byte ByteSequence, symbolic quantifier" min_checks=50 w=2 timeout=900
    // Same contract for a multi-byte literal body (NOT promoted: it does not match exactly one character).
    #[kani::proof]
    #[kani::unwind(2)]
    fn h4_promote_1char_loops_literal() {
        h4_body(5);
    }

    fn h4_body(which: u8) {
        let c: u32 = kani::any();
        let body = match which {
            0 => Node::Char { c },
            1 => Node::CharSet(vec![c]),
            2 => Node::CharSet(Vec::new()),
            3 => Node::MatchAny,
            4 => Node::MatchAnyExceptLineTerminator,
            5 => Node::ByteSequence(vec![b'a', b'b']),
            _ => Node::BackRef { group: 1, icase: false },
        };
        let one_char = which == 0 || which == 1 || which == 3 || which == 4;
        let min: usize = kani::any();
        let max: Option<usize> = kani::any();
        let greedy: bool = kani::any();
        let mut n = Node::Loop { loopee: Box::new(body), quant: Quantifier { min, max, greedy }, enclosed_groups: 0..0 };
        let r = promote_1char_loops(&mut n, &walk(false));
        if one_char {
            assert!(matches!(&r, PassAction::Modified));
            match &n {
                Node::Loop1CharBody { loopee, quant } => {
                    assert!(quant.min == min && quant.max == max && quant.greedy == greedy);
                    match (which, &**loopee) {
                        (0, Node::Char { c: x }) => assert!(*x == c),
                        (1, Node::CharSet(v)) => assert!(v.len() == 1 && v[0] == c),
                        (3, Node::MatchAny) => {}
                        (4, Node::MatchAnyExceptLineTerminator) => {}
                        _ => assert!(false, "the loop body is moved unchanged"),
                    }
                }
                _ => assert!(false),
            }
        } else {
            assert!(matches!(&r, PassAction::Keep));
            assert!(matches!(&n, Node::Loop { .. }));
        }
        core::mem::forget(r);
        core::mem::forget(n);
        kani::cover!(true);
    }

    // @obligation name=h5_remove_empties_loop props=C03,C16:t fn=optimizer::remove_empties kind=bounded bound="Loop nodes with symbolic quantifier and enclosed-group range over an Empty or Char body; empty/non-empty ByteSequence" min_checks=50 w=2 timeout=900
    // remove_empties removes a Loop only if its body is Empty, or it can run zero times at most AND encloses no capture
    // group (a group must keep its slot); an empty ByteSequence is removed, a non-empty one kept.
    #[kani::proof]
    #[kani::unwind(2)]
    fn h5_remove_empties_loop() {
        let empty_body = false;
        let max: Option<usize> = kani::any();
        let gs: u16 = kani::any();
        let ge: u16 = kani::any();
        kani::assume(gs <= ge);
        let body = if empty_body { Node::Empty } else { Node::Char { c: 0x61 } };
        let mut n = Node::Loop { loopee: Box::new(body), quant: Quantifier { min: 0, max, greedy: true }, enclosed_groups: gs..ge };
        let r = remove_empties(&mut n, &walk(false));
        let removable = empty_body || (max == Some(0) && gs == ge);
        assert!(matches!(&r, PassAction::Remove) == removable);
        assert!(matches!(&r, PassAction::Keep) == !removable);
        core::mem::forget(r);
        core::mem::forget(n);
        kani::cover!(max == Some(0) && gs < ge);
    }

    // @obligation name=h5_early_fail_keeps_groups props=C03,C16 fn=optimizer::propagate_early_fails,optimizer::contains_capture_groups kind=bounded bound="Cat[(?=(a)), always-fails]: the capture group sits inside a lookaround" min_checks=50 w=3 timeout=1500
    // propagate_early_fails replaces a Cat containing an always-failing child by an always-fails node ONLY if the Cat
    // contains no capture group anywhere inside (also not inside a lookaround, an alternation or a loop): every group of
    // the pattern must keep its capture slot.
    #[kani::proof]
    #[kani::unwind(3)]
    fn h5_early_fail_keeps_groups() {
        h5_body(1);
    }

    // @obligation name=h5_early_fail_keeps_groups_direct props=C03:t,C16:t fn=optimizer::propagate_early_fails kind=bounded bound="Cat[CaptureGroup, always-fails]" min_checks=50 w=3 timeout=1500
    // Same contract with the capture group as a direct child.
    #[kani::proof]
    #[kani::unwind(3)]
    fn h5_early_fail_keeps_groups_direct() {
        h5_body(0);
    }

    // @obligation name=h5_early_fail_replaces_group_free props=C03:t fn=optimizer::propagate_early_fails kind=bounded bound="Cat[Char, always-fails]" min_checks=50 w=3 timeout=1500
    // A group-free Cat with an always-failing child is replaced by an always-fails node.
    #[kani::proof]
    #[kani::unwind(3)]
    fn h5_early_fail_replaces_group_free() {
        h5_body(4);
    }

    fn h5_body(which: u8) {
        let grp = || Node::CaptureGroup { id: 0, contents: Box::new(Node::Char { c: 0x61 }), name: None };
        let x = match which {
            0 => grp(),
            1 => Node::LookaroundAssertion { negate: false, backwards: false, start_group: 0, end_group: 1, contents: Box::new(grp()) },
            2 => Node::Loop { loopee: Box::new(grp()), quant: Quantifier { min: 0, max: None, greedy: true }, enclosed_groups: 0..1 },
            3 => Node::Alt(Box::new(Node::Char { c: 0x62 }), Box::new(grp())),
            _ => Node::Char { c: 0x61 },
        };
        let mut n = Node::Cat(vec![x, Node::make_always_fails()]);
        let r = propagate_early_fails(&mut n, &walk(false));
        if which < 4 {
            assert!(matches!(&r, PassAction::Keep), "a node containing a capture group is never replaced");
        } else {
            match &r {
                PassAction::Replace(Node::CharSet(v)) => assert!(v.is_empty()),
                _ => assert!(false, "a group-free Cat with an always-failing child always fails"),
            }
        }
        core::mem::forget(r);
        core::mem::forget(n);
        kani::cover!(true);
    }

    // @obligation name=h5_decat props=C03,C01:t fn=optimizer::decat kind=bounded bound="Cat[], Cat[x], Cat[a,b] over Char leaves with symbolic operands" min_checks=50 w=2 timeout=900
    // decat: an empty Cat is removed, a singleton Cat is replaced by its child, a flat Cat of >= 2 children is kept.
    #[kani::proof]
    #[kani::unwind(4)]
    fn h5_decat() {
        let a: u32 = kani::any();
        let b: u32 = kani::any();
        let mut n0 = Node::Cat(Vec::new());
        let r0 = decat(&mut n0, &walk(false));
        assert!(matches!(&r0, PassAction::Remove));
        let mut n1 = Node::Cat(vec![Node::Char { c: a }]);
        let r1 = decat(&mut n1, &walk(false));
        assert!(matches!(&r1, PassAction::Replace(Node::Char { c: x }) if *x == a));
        let mut n3 = Node::Cat(vec![Node::Char { c: a }, Node::Char { c: b }]);
        let r3 = decat(&mut n3, &walk(false));
        assert!(matches!(&r3, PassAction::Keep));
        core::mem::forget((n0, n1, n3, r0, r1, r3));
        kani::cover!(true);
    }

    // @obligation name=h5_decat_flatten props= fn=optimizer::decat kind=bounded bound="Cat[Cat[a,b],c] over Char leaves with symbolic operands" min_checks=50 w=3 timeout=1500
    // decat flattens nested Cats keeping the left-to-right order of the leaves.
    #[kani::proof]
    #[kani::unwind(4)]
    fn h5_decat_flatten() {
        let a: u32 = kani::any();
        let b: u32 = kani::any();
        let c: u32 = kani::any();
        let mut n2 = Node::Cat(vec![Node::Cat(vec![Node::Char { c: a }, Node::Char { c: b }]), Node::Char { c }]);
        let r2 = decat(&mut n2, &walk(false));
        match &r2 {
            PassAction::Replace(Node::Cat(v)) => {
                assert!(v.len() == 3);
                assert!(matches!(&v[0], Node::Char { c: x } if *x == a));
                assert!(matches!(&v[1], Node::Char { c: x } if *x == b));
                assert!(matches!(&v[2], Node::Char { c: x } if *x == c));
            }
            _ => assert!(false, "nested cats are flattened in order"),
        }
        core::mem::forget((n2, r2));
        kani::cover!(true);
    }

    // @obligation name=h3_unroll_loops props= fn=optimizer::unroll_loops,optimizer::is_unrollable,ir::Node::try_duplicate kind=bounded bound="Loop{min 2, max in {2,3,4,unbounded}}(Char c), with and without enclosed groups" min_checks=50 w=3 timeout=1500
    // unroll_loops fires only for a loop without enclosed groups and 1 <= min <= 5: the node becomes min copies of the body
    // followed by Loop{0, max-min} over the same body (omitted when max == min); otherwise the loop is kept unchanged.
    #[kani::proof]
    #[kani::unwind(8)]
    fn h3_unroll_loops() {
        h3_body(2);
    }

    // @obligation name=h3_unroll_loops_not_firing props= fn=optimizer::unroll_loops kind=bounded bound="Loop{min 0}, Loop{min 6}, Loop{min 2 with enclosed groups} over Char c" min_checks=50 w=3 timeout=1500
    // Loops that may run zero times, whose minimum exceeds the threshold, or that enclose capture groups are kept unchanged.
    #[kani::proof]
    #[kani::unwind(8)]
    fn h3_unroll_loops_not_firing() {
        if kani::any() { h3_body(0) } else { h3_body(6) }
    }

    fn h3_body(min: usize) {
        let c: u32 = kani::any();
        let extra: usize = kani::any();
        kani::assume(extra <= 2);
        let bounded: bool = kani::any();
        let max = if bounded { Some(min + extra) } else { None };
        let groups: bool = kani::any();
        let mut n = Node::Loop { loopee: Box::new(Node::Char { c }), quant: Quantifier { min, max, greedy: true }, enclosed_groups: if groups { 0..1 } else { 0..0 } };
        let r = unroll_loops(&mut n, &walk(false));
        let fires = !groups && min >= 1 && min <= 5;
        if !fires {
            assert!(matches!(&r, PassAction::Keep));
            assert!(matches!(&n, Node::Loop { quant, .. } if quant.min == min && quant.max == max));
        } else {
            assert!(matches!(&r, PassAction::Modified));
            match &n {
                Node::Cat(v) => {
                    let tail = !(bounded && extra == 0);
                    assert!(v.len() == min + if tail { 1 } else { 0 });
                    let i: usize = kani::any();
                    kani::assume(i < min);
                    assert!(matches!(&v[i], Node::Char { c: x } if *x == c));
                    if tail {
                        match &v[min] {
                            Node::Loop { loopee, quant, enclosed_groups } => {
                                assert!(quant.min == 0 && quant.greedy);
                                assert!(quant.max == if bounded { Some(extra) } else { None });
                                assert!(enclosed_groups.start == enclosed_groups.end);
                                assert!(matches!(&**loopee, Node::Char { c: x } if *x == c));
                            }
                            _ => assert!(false),
                        }
                    }
                }
                _ => assert!(false),
            }
        }
        core::mem::forget((n, r));
        kani::cover!(bounded && extra == 0);
        kani::cover!(!bounded);
    }

    // @obligation name=h5_early_fail_alt_loop props= fn=optimizer::propagate_early_fails kind=bounded bound="Alt(fails, x), Alt(x, fails), Alt(fails, fails), Loop{min}(fails) over group-free leaves" min_checks=50 w=3 timeout=1500
    // propagate_early_fails on group-free nodes: an Alt with one always-failing arm is replaced by the other arm, with two by
    // an always-fails node; a loop whose body always fails always fails iff it must run at least once.
    #[kani::proof]
    #[kani::unwind(9)]
    fn h5_early_fail_alt_loop() {
        let c: u32 = kani::any();
        let fails = || Node::make_always_fails();
        let mut n1 = Node::Alt(Box::new(fails()), Box::new(Node::Char { c }));
        let r1 = propagate_early_fails(&mut n1, &walk(false));
        assert!(matches!(&r1, PassAction::Replace(Node::Char { c: x }) if *x == c));
        let mut n2 = Node::Alt(Box::new(Node::Char { c }), Box::new(fails()));
        let r2 = propagate_early_fails(&mut n2, &walk(false));
        assert!(matches!(&r2, PassAction::Replace(Node::Char { c: x }) if *x == c));
        let mut n3 = Node::Alt(Box::new(fails()), Box::new(fails()));
        let r3 = propagate_early_fails(&mut n3, &walk(false));
        assert!(matches!(&r3, PassAction::Replace(Node::CharSet(v)) if v.is_empty()));
        let min: usize = kani::any();
        let mut n4 = Node::Loop { loopee: Box::new(fails()), quant: Quantifier { min, max: None, greedy: true }, enclosed_groups: 0..0 };
        let r4 = propagate_early_fails(&mut n4, &walk(false));
        if min > 0 {
            assert!(matches!(&r4, PassAction::Replace(Node::CharSet(v)) if v.is_empty()));
        } else {
            assert!(matches!(&r4, PassAction::Keep), "a loop that may run zero times can still match");
        }
        core::mem::forget((n1, n2, n3, n4, r1, r2, r3, r4));
        kani::cover!(min == 0);
    }

    // @obligation name=h5_remove_empties_cat props=C03 fn=optimizer::remove_empties kind=bounded bound="Cat[Empty, x], Cat[Empty, Empty], Cat[x, Empty, y], Alt(Empty, Empty), Alt(Empty, x), positive/negative lookaround over Empty" min_checks=50 w=3 timeout=1500
    // remove_empties drops Empty children of a Cat keeping the order of the others (a singleton result replaces the Cat, an
    // empty result removes it); an Alt is removed only if BOTH arms are empty (an empty arm can still match); a positive
    // lookaround over Empty is removed, a negative one is kept.
    #[kani::proof]
    #[kani::unwind(6)]
    fn h5_remove_empties_cat() {
        let a: u32 = kani::any();
        let b: u32 = kani::any();
        let mut n1 = Node::Cat(vec![Node::Empty, Node::Char { c: a }]);
        let r1 = remove_empties(&mut n1, &walk(false));
        assert!(matches!(&r1, PassAction::Replace(Node::Char { c: x }) if *x == a));
        let mut n2 = Node::Cat(vec![Node::Empty, Node::Empty]);
        let r2 = remove_empties(&mut n2, &walk(false));
        assert!(matches!(&r2, PassAction::Remove));
        let mut n3 = Node::Cat(vec![Node::Char { c: a }, Node::Empty, Node::Char { c: b }]);
        let r3 = remove_empties(&mut n3, &walk(false));
        assert!(matches!(&r3, PassAction::Modified));
        match &n3 {
            Node::Cat(v) => {
                assert!(v.len() == 2);
                assert!(matches!(&v[0], Node::Char { c: x } if *x == a));
                assert!(matches!(&v[1], Node::Char { c: x } if *x == b));
            }
            _ => assert!(false),
        }
        let mut n4 = Node::Alt(Box::new(Node::Empty), Box::new(Node::Empty));
        let r4 = remove_empties(&mut n4, &walk(false));
        assert!(matches!(&r4, PassAction::Remove));
        let mut n5 = Node::Alt(Box::new(Node::Empty), Box::new(Node::Char { c: a }));
        let r5 = remove_empties(&mut n5, &walk(false));
        assert!(matches!(&r5, PassAction::Keep), "an alternation with one empty arm still matches the empty string");
        let neg: bool = kani::any();
        let mut n6 = Node::LookaroundAssertion { negate: neg, backwards: false, start_group: 0, end_group: 0, contents: Box::new(Node::Empty) };
        let r6 = remove_empties(&mut n6, &walk(false));
        assert!(matches!(&r6, PassAction::Remove) == !neg);
        core::mem::forget((n1, n2, n3, n4, n5, n6, r1, r2, r3, r4, r5, r6));
        kani::cover!(neg);
    }

    // @obligation name=h1_simplify_brackets_inversion props=C03,C12 fn=optimizer::simplify_brackets kind=bounded bound="bracket = everything except one symbolic code point a (2 intervals), invert symbolic; probe: every code point" min_checks=50 w=3 timeout=1500
    // simplify_brackets may replace (cps, invert) by (complement of cps, !invert) when that has fewer intervals: the bracket
    // denotes the same set of code points before and after (checked at a symbolic code point).
    #[kani::proof]
    #[kani::unwind(8)]
    fn h1_simplify_brackets_inversion() {
        use crate::codepointset::{CodePointSet, Interval};
        let a: u32 = kani::any();
        kani::assume(a >= 10 && a <= 0x10FFFF - 10);
        let invert: bool = kani::any();
        let cps = CodePointSet::from_sorted_disjoint_intervals(vec![Interval { first: 0, last: a - 1 }, Interval { first: a + 1, last: 0x10FFFF }]);
        let mut n = Node::Bracket(BracketContents { invert, cps });
        let cp: u32 = kani::any();
        kani::assume(cp <= 0x10FFFF);
        let before = (cp != a) != invert;
        let r = simplify_brackets(&mut n, &walk(false));
        match (&r, &n) {
            (PassAction::Modified, Node::Bracket(bc)) | (PassAction::Keep, Node::Bracket(bc)) => {
                assert!((bc.cps.contains(cp) != bc.invert) == before, "the bracket denotes the same set");
            }
            (PassAction::Replace(Node::CharSet(v)), _) => {
                // only possible for a non-inverted small bracket; here the bracket has > 4 members
                assert!(false, "a bracket with more than 4 members is not reduced to a CharSet: {}", v.len());
            }
            _ => assert!(false),
        }
        let modified = matches!(&r, PassAction::Modified);
        core::mem::forget((n, r));
        kani::cover!(modified);
    }

    fn unroll_case(min: usize, max: Option<usize>, groups: bool) {
        let c: u32 = kani::any();
        let mut n = Node::Loop { loopee: Box::new(Node::Char { c }), quant: Quantifier { min, max, greedy: true }, enclosed_groups: if groups { 0..1 } else { 0..0 } };
        let r = unroll_loops(&mut n, &walk(false));
        let fires = !groups && min >= 1 && min <= 5;
        if !fires {
            assert!(matches!(&r, PassAction::Keep));
            assert!(matches!(&n, Node::Loop { quant, .. } if quant.min == min && quant.max == max));
        } else {
            assert!(matches!(&r, PassAction::Modified));
            match &n {
                Node::Cat(v) => {
                    let tail = max != Some(min);
                    assert!(v.len() == min + if tail { 1 } else { 0 }, "min copies of the body, plus the remaining loop unless max == min");
                    let mut i = 0;
                    while i < min {
                        assert!(matches!(&v[i], Node::Char { c: x } if *x == c));
                        i += 1;
                    }
                    if tail {
                        match &v[min] {
                            Node::Loop { loopee, quant, enclosed_groups } => {
                                assert!(quant.min == 0 && quant.greedy);
                                assert!(quant.max == max.map(|m| m - min), "the remaining loop runs at most max - min more times");
                                assert!(enclosed_groups.start == enclosed_groups.end);
                                assert!(matches!(&**loopee, Node::Char { c: x } if *x == c));
                            }
                            _ => assert!(false),
                        }
                    }
                }
                _ => assert!(false),
            }
        }
        core::mem::forget((n, r));
        kani::cover!(true);
    }

    // @obligation name=h3_unroll_2_3 props= fn=optimizer::unroll_loops,optimizer::is_unrollable,ir::Node::try_duplicate kind=bounded bound="Loop{2,3}(Char c), symbolic c" min_checks=50 w=3 timeout=1500
    // unroll_loops on x{2,3}: two copies of the body followed by Loop{0,1} over the same body.
    #[kani::proof]
    #[kani::unwind(4)]
    fn h3_unroll_2_3() {
        unroll_case(2, Some(3), false);
    }

    // @obligation name=h3_unroll_2_2 props= fn=optimizer::unroll_loops kind=bounded bound="Loop{2,2}(Char c)" min_checks=50 w=3 timeout=1500
    // unroll_loops on x{2}: exactly two copies and no trailing loop.
    #[kani::proof]
    #[kani::unwind(4)]
    fn h3_unroll_2_2() {
        unroll_case(2, Some(2), false);
    }

    // @obligation name=h3_unroll_1_inf props= fn=optimizer::unroll_loops kind=bounded bound="Loop{1,unbounded}(Char c)" min_checks=50 w=3 timeout=1500
    // unroll_loops on x+: one copy followed by x*.
    #[kani::proof]
    #[kani::unwind(4)]
    fn h3_unroll_1_inf() {
        unroll_case(1, None, false);
    }

    // @obligation name=h3_unroll_not_firing props= fn=optimizer::unroll_loops kind=bounded bound="Loop{0,3}, Loop{6,7}, Loop{2,3} enclosing a group, over Char c" min_checks=50 w=3 timeout=1500
    // Loops that may run zero times, exceed the threshold, or enclose capture groups are kept unchanged.
    #[kani::proof]
    #[kani::unwind(4)]
    fn h3_unroll_not_firing() {
        unroll_case(0, Some(3), false);
        unroll_case(6, Some(7), false);
        unroll_case(2, Some(3), true);
    }

    // ---------------------------------------------------------------------------------------------
    // Whole optimizer (all passes to fixpoint through the recursive tree walk) on small IR trees.

    fn opt(node: Node) -> &'static Regex {
        let re: &'static mut Regex = Box::leak(Box::new(Regex { node, flags: crate::api::Flags::default() }));
        optimize(re);
        re
    }

    // @obligation name=h6_optimize_two_chars props= fn=optimizer::optimize,optimizer::run_pass,ir::walk_mut kind=bounded bound="IR Cat[Char a, Char b], symbolic ASCII a b" min_checks=50 w=3 timeout=1500
    // optimize() on the IR of /ab/: the result is the single literal ByteSequence [a, b] (same text, source order).
    #[kani::proof]
    #[kani::unwind(5)]
    fn h6_optimize_two_chars() {
        let a: u8 = kani::any();
        let b: u8 = kani::any();
        kani::assume(a < 128 && b < 128);
        let re = opt(Node::Cat(vec![Node::Char { c: a as u32 }, Node::Char { c: b as u32 }]));
        match &re.node {
            Node::ByteSequence(v) => assert!(v.len() == 2 && v[0] == a && v[1] == b),
            _ => assert!(false, "two literal chars become one literal byte sequence in source order"),
        }
        kani::cover!(true);
    }

    // @obligation name=h6_run_pass_form_literal_bytes props= fn=optimizer::run_pass,optimizer::Pass::run_to_fixpoint,optimizer::Pass::run_postorder,ir::walk_mut,ir::MutWalker::process kind=bounded bound="IR Cat[Char a, Char b] and (?<=..) with the reversed Cat, symbolic ASCII a b" min_checks=50 w=3 timeout=1500
    // run_pass(form_literal_bytes) applied through the real post-order tree walk to fixpoint: /ab/ becomes
    // Cat[empty literal, literal "ab"]; inside a lookbehind (children reversed by the parser) the literal is again "ab" in
    // source order - the walk passes the lookbehind context down to the pass function and restores it afterwards.
    #[kani::proof]
    #[kani::unwind(5)]
    fn h6_run_pass_form_literal_bytes() {
        h6_body(false);
    }

    // @obligation name=h6_run_pass_form_literal_bytes_lookbehind props= fn=optimizer::run_pass,ir::walk_mut kind=bounded bound="IR (?<=ab) with the reversed Cat, symbolic ASCII a b" min_checks=50 w=3 timeout=1500
    // The same inside a lookbehind.
    #[kani::proof]
    #[kani::unwind(5)]
    fn h6_run_pass_form_literal_bytes_lookbehind() {
        h6_body(true);
    }

    fn h6_body(lb: bool) {
        let a: u8 = kani::any();
        let b: u8 = kani::any();
        kani::assume(a < 128 && b < 128);
        let cat = if lb {
            Node::Cat(vec![Node::Char { c: b as u32 }, Node::Char { c: a as u32 }])
        } else {
            Node::Cat(vec![Node::Char { c: a as u32 }, Node::Char { c: b as u32 }])
        };
        let node = if lb {
            Node::LookaroundAssertion { negate: false, backwards: true, start_group: 0, end_group: 0, contents: Box::new(cat) }
        } else {
            cat
        };
        let re: &'static mut Regex = Box::leak(Box::new(Regex { node, flags: crate::api::Flags::default() }));
        let changed = run_pass(re, &mut form_literal_bytes);
        assert!(changed);
        let inner = match &re.node {
            Node::LookaroundAssertion { contents, .. } => &**contents,
            other => other,
        };
        match inner {
            Node::Cat(v) => {
                assert!(v.len() == 2);
                match (&v[0], &v[1]) {
                    (Node::ByteSequence(p), Node::ByteSequence(q)) => {
                        assert!(p.len() == 0 && q.len() == 2 && q[0] == a && q[1] == b, "literal text in source order");
                    }
                    _ => assert!(false),
                }
            }
            _ => assert!(false),
        }
        kani::cover!(true);
    }
}
