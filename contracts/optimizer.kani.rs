// Contracts for src/optimizer.rs: the per-node pass functions (they are plain `fn(&mut Node, &Walk) -> PassAction`; the
// tree walk that applies them recurses over ir::Node and is NOT under contract). Each contract is the side condition under
// which the rewrite is an identity on any reasonable semantics.
// (form_literal_bytes is compiled out under the utf16 feature, so is this module)
#[cfg(all(kani, not(feature = "utf16")))]
pub(crate) mod __verif {
    use super::*;

    fn walk(in_lookbehind: bool) -> Walk {
        Walk { skip_children: false, depth: 0, in_lookbehind, unicode: false }
    }

    // @obligation name=h2_form_literal_bytes_char props=C03,C01:t fn=optimizer::form_literal_bytes kind=complete domain="every u32 operand" min_checks=50 w=2 timeout=900
    // Char{c} is replaced by ByteSequence(utf8(c)) exactly when c is a Unicode scalar value; a surrogate / out-of-range
    // code point is kept (so matching it is left to the Char instruction, which never matches in UTF-8).
    #[kani::proof]
    #[kani::unwind(6)]
    fn h2_form_literal_bytes_char() {
        let c: u32 = kani::any();
        let mut n = Node::Char { c };
        let r = form_literal_bytes(&mut n, &walk(kani::any()));
        match char::from_u32(c) {
            Some(ch) => {
                let mut b = [0u8; 4];
                let e = ch.encode_utf8(&mut b).as_bytes();
                match &r {
                    PassAction::Replace(Node::ByteSequence(v)) => {
                        assert!(v.len() == e.len());
                        let i: usize = kani::any();
                        kani::assume(i < e.len());
                        assert!(v[i] == e[i]);
                    }
                    _ => assert!(false, "a scalar Char becomes its UTF-8 bytes"),
                }
            }
            None => assert!(matches!(&r, PassAction::Keep)),
        }
        // never run Node's recursive drop glue under CBMC
        core::mem::forget(r);
        core::mem::forget(n);
        kani::cover!(c > 0x10000 && c <= 0x10FFFF);
        kani::cover!(c >= 0xD800 && c < 0xE000);
    }

    // @obligation name=h2_form_literal_bytes_charset props=C03,C01:t fn=optimizer::form_literal_bytes kind=bounded bound="CharSet of 2 or 3 symbolic code points" min_checks=50 w=2 timeout=900
    // A CharSet is lowered to a ByteSet only when EVERY member is ASCII (<= 0x7F), and then with the same members; otherwise
    // it is kept (a byte >= 0x80 in a ByteSet would match inside a UTF-8 sequence).
    #[kani::proof]
    #[kani::unwind(6)]
    fn h2_form_literal_bytes_charset() {
        let c: [u32; 3] = kani::any();
        let three: bool = kani::any();
        let mut n = Node::CharSet(if three { vec![c[0], c[1], c[2]] } else { vec![c[0], c[1]] });
        let k = if three { 3 } else { 2 };
        let all_ascii = c[0] <= 0x7F && c[1] <= 0x7F && (!three || c[2] <= 0x7F);
        let r = form_literal_bytes(&mut n, &walk(kani::any()));
        match &r {
            PassAction::Replace(Node::ByteSet(v)) => {
                assert!(all_ascii, "only all-ASCII CharSets become ByteSets");
                assert!(v.len() == k);
                let i: usize = kani::any();
                kani::assume(i < k);
                assert!(v[i] as u32 == c[i]);
            }
            PassAction::Keep => assert!(!all_ascii),
            _ => assert!(false),
        }
        core::mem::forget(r);
        core::mem::forget(n);
        kani::cover!(all_ascii && three);
        kani::cover!(!all_ascii && c[0] == 0x80);
    }

    // @obligation name=h2_form_literal_bytes_cat props=C03,C01:t fn=optimizer::form_literal_bytes kind=bounded bound="Cat of two 1-byte ByteSequences (symbolic bytes), inside and outside lookbehind" min_checks=50 w=3 timeout=1500
    // Adjacent literal byte sequences in a Cat are merged into one holding their concatenation in SOURCE order: prev++curr
    // outside a lookbehind; inside a lookbehind the children were reversed by the parser, so curr++prev; the emptied node
    // stays as an empty sequence.
    #[kani::proof]
    #[kani::unwind(6)]
    fn h2_form_literal_bytes_cat() {
        let a: u8 = kani::any();
        let b: u8 = kani::any();
        let lb: bool = kani::any();
        let mut n = Node::Cat(vec![Node::ByteSequence(vec![a]), Node::ByteSequence(vec![b])]);
        let r = form_literal_bytes(&mut n, &walk(lb));
        assert!(matches!(&r, PassAction::Modified));
        core::mem::forget(r);
        match &n {
            Node::Cat(v) => {
                assert!(v.len() == 2);
                match (&v[0], &v[1]) {
                    (Node::ByteSequence(p), Node::ByteSequence(q)) => {
                        assert!(p.len() == 0 && q.len() == 2);
                        if lb { assert!(q[0] == b && q[1] == a); } else { assert!(q[0] == a && q[1] == b); }
                    }
                    _ => assert!(false),
                }
            }
            _ => assert!(false),
        }
        core::mem::forget(n);
        kani::cover!(lb);
        kani::cover!(!lb);
    }

    // @obligation name=h1_try_reduce_bracket props=C03,C12 fn=optimizer::try_reduce_bracket,optimizer::simplify_brackets kind=bounded bound="bracket with 1 symbolic interval, invert symbolic" min_checks=50 w=3 timeout=1500
    // try_reduce_bracket returns a CharSet only for a non-inverted bracket with at most 4 code points, and then exactly
    // its members in increasing order; simplify_brackets otherwise either keeps the bracket or replaces (cps, invert) by
    // (complement, !invert), which denotes the same set.
    #[kani::proof]
    #[kani::unwind(8)]
    fn h1_try_reduce_bracket() {
        let first: u32 = kani::any();
        let last: u32 = kani::any();
        kani::assume(first <= last && last <= 0x10FFFF);
        let invert: bool = kani::any();
        let cps = crate::codepointset::CodePointSet::from_sorted_disjoint_intervals(vec![crate::codepointset::Interval { first, last }]);
        let bc = BracketContents { invert, cps };
        let r = try_reduce_bracket(&bc);
        let count = (last - first) as usize + 1;
        match &r {
            Some(Node::CharSet(v)) => {
                assert!(!invert && count <= MAX_CHAR_SET_LENGTH);
                assert!(v.len() == count);
                let i: usize = kani::any();
                kani::assume(i < count);
                assert!(v[i] == first + i as u32);
            }
            None => assert!(invert || count > MAX_CHAR_SET_LENGTH),
            _ => assert!(false),
        }
        core::mem::forget(r);
        core::mem::forget(bc);
        kani::cover!(count == 4 && !invert);
        kani::cover!(count == 5);
    }

    // @obligation name=h4_promote_1char_loops props=C03,C01:t fn=optimizer::promote_1char_loops,ir::Node::matches_exactly_one_char kind=bounded bound="Loop over a Char body (every u32 operand), symbolic quantifier; one harness per body kind" min_checks=50 w=2 timeout=900
    // A Loop is promoted to Loop1CharBody only when its body is a node that matches exactly one character (Char, non-empty
    // CharSet, MatchAny, MatchAnyExceptLineTerminator - kinds the single-char loop executor handles), keeping the
    // quantifier and the body unchanged; other bodies (multi-byte literals, backreferences, empty sets) are kept.
    #[kani::proof]
    #[kani::unwind(2)]
    fn h4_promote_1char_loops() {
        h4_body(0);
    }

    // @obligation name=h4_promote_1char_loops_charset props=C03:t,C01:t fn=optimizer::promote_1char_loops kind=bounded bound="Loop over a 1-member CharSet, symbolic quantifier" min_checks=50 w=2 timeout=900
    // Same contract for a non-empty CharSet body (promoted).
    #[kani::proof]
    #[kani::unwind(2)]
    fn h4_promote_1char_loops_charset() {
        h4_body(1);
    }

    // @obligation name=h4_promote_1char_loops_literal props=C03:t fn=optimizer::promote_1char_loops kind=bounded bound="Loop over a 2-byte ByteSequence, symbolic quantifier" min_checks=50 w=2 timeout=900
    // Same contract for a multi-byte literal body (NOT promoted: it does not match exactly one character).
    #[kani::proof]
    #[kani::unwind(2)]
    fn h4_promote_1char_loops_literal() {
        h4_body(5);
    }

    fn h4_body(which: u8) {
        let c: u32 = kani::any();
        let body = match which {
            0 => Node::Char { c },
            1 => Node::CharSet(vec![c]),
            2 => Node::CharSet(Vec::new()),
            3 => Node::MatchAny,
            4 => Node::MatchAnyExceptLineTerminator,
            5 => Node::ByteSequence(vec![b'a', b'b']),
            _ => Node::BackRef { group: 1, icase: false },
        };
        let one_char = which == 0 || which == 1 || which == 3 || which == 4;
        let min: usize = kani::any();
        let max: Option<usize> = kani::any();
        let greedy: bool = kani::any();
        let mut n = Node::Loop { loopee: Box::new(body), quant: Quantifier { min, max, greedy }, enclosed_groups: 0..0 };
        let r = promote_1char_loops(&mut n, &walk(false));
        if one_char {
            assert!(matches!(&r, PassAction::Modified));
            match &n {
                Node::Loop1CharBody { loopee, quant } => {
                    assert!(quant.min == min && quant.max == max && quant.greedy == greedy);
                    match (which, &**loopee) {
                        (0, Node::Char { c: x }) => assert!(*x == c),
                        (1, Node::CharSet(v)) => assert!(v.len() == 1 && v[0] == c),
                        (3, Node::MatchAny) => {}
                        (4, Node::MatchAnyExceptLineTerminator) => {}
                        _ => assert!(false, "the loop body is moved unchanged"),
                    }
                }
                _ => assert!(false),
            }
        } else {
            assert!(matches!(&r, PassAction::Keep));
            assert!(matches!(&n, Node::Loop { .. }));
        }
        core::mem::forget(r);
        core::mem::forget(n);
        kani::cover!(true);
    }

    // @obligation name=h5_remove_empties_loop props=C03,C16:t fn=optimizer::remove_empties kind=bounded bound="Loop nodes with symbolic quantifier and enclosed-group range over an Empty or Char body; empty/non-empty ByteSequence" min_checks=50 w=2 timeout=900
    // remove_empties removes a Loop only if its body is Empty, or it can run zero times at most AND encloses no capture
    // group (a group must keep its slot); an empty ByteSequence is removed, a non-empty one kept.
    #[kani::proof]
    #[kani::unwind(2)]
    fn h5_remove_empties_loop() {
        let empty_body = false;
        let max: Option<usize> = kani::any();
        let gs: u16 = kani::any();
        let ge: u16 = kani::any();
        kani::assume(gs <= ge);
        let body = if empty_body { Node::Empty } else { Node::Char { c: 0x61 } };
        let mut n = Node::Loop { loopee: Box::new(body), quant: Quantifier { min: 0, max, greedy: true }, enclosed_groups: gs..ge };
        let r = remove_empties(&mut n, &walk(false));
        let removable = empty_body || (max == Some(0) && gs == ge);
        assert!(matches!(&r, PassAction::Remove) == removable);
        assert!(matches!(&r, PassAction::Keep) == !removable);
        core::mem::forget(r);
        core::mem::forget(n);
        kani::cover!(max == Some(0) && gs < ge);
    }

    // @obligation name=h5_early_fail_keeps_groups props=C03,C16 fn=optimizer::propagate_early_fails,optimizer::contains_capture_groups kind=bounded bound="Cat[(?=(a)), always-fails]: the capture group sits inside a lookaround" min_checks=50 w=3 timeout=1500
    // propagate_early_fails replaces a Cat containing an always-failing child by an always-fails node ONLY if the Cat
    // contains no capture group anywhere inside (also not inside a lookaround, an alternation or a loop): every group of
    // the pattern must keep its capture slot.
    #[kani::proof]
    #[kani::unwind(3)]
    fn h5_early_fail_keeps_groups() {
        h5_body(1);
    }

    // @obligation name=h5_early_fail_keeps_groups_direct props=C03:t,C16:t fn=optimizer::propagate_early_fails kind=bounded bound="Cat[CaptureGroup, always-fails]" min_checks=50 w=3 timeout=1500
    // Same contract with the capture group as a direct child.
    #[kani::proof]
    #[kani::unwind(3)]
    fn h5_early_fail_keeps_groups_direct() {
        h5_body(0);
    }

    // @obligation name=h5_early_fail_replaces_group_free props=C03:t fn=optimizer::propagate_early_fails kind=bounded bound="Cat[Char, always-fails]" min_checks=50 w=3 timeout=1500
    // A group-free Cat with an always-failing child is replaced by an always-fails node.
    #[kani::proof]
    #[kani::unwind(3)]
    fn h5_early_fail_replaces_group_free() {
        h5_body(4);
    }

    fn h5_body(which: u8) {
        let grp = || Node::CaptureGroup { id: 0, contents: Box::new(Node::Char { c: 0x61 }), name: None };
        let x = match which {
            0 => grp(),
            1 => Node::LookaroundAssertion { negate: false, backwards: false, start_group: 0, end_group: 1, contents: Box::new(grp()) },
            2 => Node::Loop { loopee: Box::new(grp()), quant: Quantifier { min: 0, max: None, greedy: true }, enclosed_groups: 0..1 },
            3 => Node::Alt(Box::new(Node::Char { c: 0x62 }), Box::new(grp())),
            _ => Node::Char { c: 0x61 },
        };
        let mut n = Node::Cat(vec![x, Node::make_always_fails()]);
        let r = propagate_early_fails(&mut n, &walk(false));
        if which < 4 {
            assert!(matches!(&r, PassAction::Keep), "a node containing a capture group is never replaced");
        } else {
            match &r {
                PassAction::Replace(Node::CharSet(v)) => assert!(v.is_empty()),
                _ => assert!(false, "a group-free Cat with an always-failing child always fails"),
            }
        }
        core::mem::forget(r);
        core::mem::forget(n);
        kani::cover!(true);
    }

    // ---------------------------------------------------------------------------------------------
    // Whole optimizer (all passes to fixpoint through the recursive tree walk) on small IR trees.

    fn opt(node: Node) -> &'static Regex {
        let re: &'static mut Regex = Box::leak(Box::new(Regex { node, flags: crate::api::Flags::default() }));
        optimize(re);
        re
    }

    // @obligation name=h6_optimize_two_chars props= fn=optimizer::optimize,optimizer::run_pass,ir::walk_mut kind=bounded bound="IR Cat[Char a, Char b], symbolic ASCII a b" min_checks=50 w=3 timeout=1500
    // optimize() on the IR of /ab/: the result is the single literal ByteSequence [a, b] (same text, source order).
    #[kani::proof]
    #[kani::unwind(5)]
    fn h6_optimize_two_chars() {
        let a: u8 = kani::any();
        let b: u8 = kani::any();
        kani::assume(a < 128 && b < 128);
        let re = opt(Node::Cat(vec![Node::Char { c: a as u32 }, Node::Char { c: b as u32 }]));
        match &re.node {
            Node::ByteSequence(v) => assert!(v.len() == 2 && v[0] == a && v[1] == b),
            _ => assert!(false, "two literal chars become one literal byte sequence in source order"),
        }
        kani::cover!(true);
    }

    // @obligation name=h6_run_pass_form_literal_bytes props= fn=optimizer::run_pass,optimizer::Pass::run_to_fixpoint,optimizer::Pass::run_postorder,ir::walk_mut,ir::MutWalker::process kind=bounded bound="IR Cat[Char a, Char b] and (?<=..) with the reversed Cat, symbolic ASCII a b" min_checks=50 w=3 timeout=1500
    // run_pass(form_literal_bytes) applied through the real post-order tree walk to fixpoint: /ab/ becomes
    // Cat[empty literal, literal "ab"]; inside a lookbehind (children reversed by the parser) the literal is again "ab" in
    // source order - the walk passes the lookbehind context down to the pass function and restores it afterwards.
    #[kani::proof]
    #[kani::unwind(5)]
    fn h6_run_pass_form_literal_bytes() {
        h6_body(false);
    }

    // @obligation name=h6_run_pass_form_literal_bytes_lookbehind props= fn=optimizer::run_pass,ir::walk_mut kind=bounded bound="IR (?<=ab) with the reversed Cat, symbolic ASCII a b" min_checks=50 w=3 timeout=1500
    // The same inside a lookbehind.
    #[kani::proof]
    #[kani::unwind(5)]
    fn h6_run_pass_form_literal_bytes_lookbehind() {
        h6_body(true);
    }

    fn h6_body(lb: bool) {
        let a: u8 = kani::any();
        let b: u8 = kani::any();
        kani::assume(a < 128 && b < 128);
        let cat = if lb {
            Node::Cat(vec![Node::Char { c: b as u32 }, Node::Char { c: a as u32 }])
        } else {
            Node::Cat(vec![Node::Char { c: a as u32 }, Node::Char { c: b as u32 }])
        };
        let node = if lb {
            Node::LookaroundAssertion { negate: false, backwards: true, start_group: 0, end_group: 0, contents: Box::new(cat) }
        } else {
            cat
        };
        let re: &'static mut Regex = Box::leak(Box::new(Regex { node, flags: crate::api::Flags::default() }));
        let changed = run_pass(re, &mut form_literal_bytes);
        assert!(changed);
        let inner = match &re.node {
            Node::LookaroundAssertion { contents, .. } => &**contents,
            other => other,
        };
        match inner {
            Node::Cat(v) => {
                assert!(v.len() == 2);
                match (&v[0], &v[1]) {
                    (Node::ByteSequence(p), Node::ByteSequence(q)) => {
                        assert!(p.len() == 0 && q.len() == 2 && q[0] == a && q[1] == b, "literal text in source order");
                    }
                    _ => assert!(false),
                }
            }
            _ => assert!(false),
        }
        kani::cover!(true);
    }
}
