#!/bin/bash
# development aid: ./dev.sh <timeout_s> <harness> [<harness>...]  -- run harnesses in a persistent dev scratch
T=$1; shift
D=${D:-/var/tmp/rv-dev}
mkdir -p $D
rm -rf $D/src $D/tests; git -C /repo archive HEAD | tar -x -C $D
mkdir -p $D/.cargo; printf '[net]\noffline = true\n' > $D/.cargo/config.toml
python3 -c "import sys; sys.path.insert(0,'/verif'); from vlib import weave; print([e['applied'] for e in weave.inject_attrs('$D')])"
python3 -c "import sys; sys.path.insert(0,'/verif'); from vlib import weave; print([e.get('missing') for e in weave.inject_kani_modules('$D') if e.get('missing')])"
cd $D
H=""
for h in "$@"; do H="$H --harness $h"; done
N=$#
J=${J:-$N}
cargo kani -p regress -Z stubbing -Z function-contracts -Z unstable-options $H -j $J --output-format terse --harness-timeout ${T}s ${FEATURES:+--features $FEATURES} --cbmc-args --max-field-sensitivity-array-size ${FS:-1024} > ${D:-/var/tmp/rv-dev}.log 2>&1
python3 - <<'PY'
import re
import os; out=open(os.environ.get('D','/var/tmp/rv-dev')+'.log').read()
if 'could not compile' in out:
    print("\n".join(l for l in out.split("\n") if l.startswith("error") or '-->' in l)[:3000])
ev=[]
for m in re.finditer(r"^Thread (\d+): Checking harness (\S+?)\.\.\.\s*$", out, re.M): ev.append((m.start(), int(m.group(1)), m.group(2)))
for m in re.finditer(r"^Thread (\d+): *$", out, re.M): ev.append((m.start(), int(m.group(1)), None))
ev.sort(); cur={}
for i,(pos,th,h) in enumerate(ev):
    end=ev[i+1][0] if i+1<len(ev) else len(out)
    if h: cur[th]=h
    else:
        b=out[pos:end]
        st="OK" if "SUCCESSFUL" in b else ("TIMEOUT" if "timed out" in b else "FAILED")
        t=re.search(r"Verification Time: ([0-9.]+)s", b)
        n=re.search(r"\*\* (\d+) of (\d+) failed", b)
        c=re.search(r"\*\* (\d+) of (\d+) cover", b)
        print("%-55s %-8s %7s  checks=%s covers=%s" % (cur.get(th,"?").split("::")[-1], st, (t.group(1)[:6] if t else "-"), n.group(2) if n else "-", (c.group(1)+"/"+c.group(2)) if c else "-"))
        for f in re.findall(r"^Failed Checks: (.*)$", b, re.M)[:6]: print("      failed:", f)
        if st=="FAILED" and "Failed Checks" not in b: print("      ", " ".join(b.split())[:300])
PY
